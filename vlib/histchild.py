"""Child process of the C11 check: runs a history of configurations in one interpreter through
pdb2pqr.main.run_pdb2pqr and prints one JSON line per run: {"cfg": name, "out": digest-or-exception}."""
import hashlib
import io
import json
import os
import sys
import contextlib


def main():
    spec = json.load(open(sys.argv[1]))
    repo = spec["repo"]
    sys.path.insert(0, repo)
    import logging
    logging.disable(logging.CRITICAL)
    import pdb2pqr.main as pmain

    wd = spec["workdir"]
    for n, name in enumerate(spec["history"]):
        cfg = spec["configs"][name]
        out = os.path.join(wd, f"out-{n}.pqr")
        args = [a.replace("@DIR@", spec["files"]) for a in cfg["args"]] + [os.path.join(spec["files"], cfg["input"]), out]
        atoms = None
        try:
            with contextlib.redirect_stdout(io.StringIO()), contextlib.redirect_stderr(io.StringIO()):
                if spec.get("cli") and n == len(spec["history"]) - 1:
                    old = sys.argv
                    sys.argv = ["pdb2pqr"] + args
                    try:
                        pmain.main()
                    finally:
                        sys.argv = old
                else:
                    pmain.run_pdb2pqr(args)
            data = open(out, "rb").read()
            res = hashlib.sha1(data).hexdigest()
            atoms = hashlib.sha1(b"\n".join(ln[:6] + ln[11:] for ln in data.split(b"\n") if ln.startswith((b"ATOM", b"HETATM")))).hexdigest()
        except SystemExit as e:
            res = f"SystemExit:{e.code}"
        except BaseException as e:
            res = type(e).__name__
        print(json.dumps({"cfg": name, "out": res, "atoms": atoms or res}), flush=True)
        try:
            os.unlink(out)
        except OSError:
            pass


if __name__ == "__main__":
    main()
