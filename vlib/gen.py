"""Input generators: peptides, nucleic acid strands, waters and hetero groups built from the topology
templates of the tree under test (AA.xml / NA.xml / PATCHES.xml through pdb2pqr's own loader), so that
generated structures are well-formed by pdb2pqr's definition."""
import math

import numpy as np

from . import core

_DEF = None


def definitions():
    global _DEF
    if _DEF is None:
        core.use_repo()
        from pdb2pqr import io as pio

        _DEF = pio.get_definitions()
    return _DEF


def template(resname):
    """atom name -> np.array([x,y,z]) in the residue template frame (CA at the origin)"""
    r = definitions().map[resname]
    return {n: np.array([a.x, a.y, a.z], dtype=float) for n, a in r.map.items()}


def bonds(resname):
    r = definitions().map[resname]
    return {n: list(a.bonds) for n, a in r.map.items()}


PEP_NP1 = np.array([-1.252, 1.877, 1.023])   # N of the next residue in this residue's frame (PEPTIDE patch)
PEP_CM1 = np.array([2.339, 0.216, 0.000])    # C of the previous residue in this residue's frame


def _peptide_pseudo():
    p = definitions().patches.get("PEPTIDE") if isinstance(definitions().patches, dict) else None
    if p is not None and "N+1" in p.map and "C-1" in p.map:
        a, b = p.map["N+1"], p.map["C-1"]
        return np.array([a.x, a.y, a.z]), np.array([b.x, b.y, b.z])
    return PEP_NP1, PEP_CM1


def _rot_axis(axis, ang):
    """right-handed rotation by ang (radians) about axis (Rodrigues)"""
    k = axis / np.linalg.norm(axis)
    K = np.array([[0, -k[2], k[1]], [k[2], 0, -k[0]], [-k[1], k[0], 0]])
    return np.eye(3) * math.cos(ang) + math.sin(ang) * K + (1 - math.cos(ang)) * np.outer(k, k)


def _align(v_from, v_to):
    """rotation matrix taking unit(v_from) onto unit(v_to)"""
    a = v_from / np.linalg.norm(v_from)
    b = v_to / np.linalg.norm(v_to)
    c = float(np.dot(a, b))
    if c > 1 - 1e-12:
        return np.eye(3)
    if c < -1 + 1e-12:
        p = np.cross(a, [1.0, 0, 0])
        if np.linalg.norm(p) < 1e-6:
            p = np.cross(a, [0, 1.0, 0])
        return _rot_axis(p, math.pi)
    ax = np.cross(a, b)
    return _rot_axis(ax, math.acos(c))


def dihedral(p0, p1, p2, p3):
    b0, b1, b2 = p0 - p1, p2 - p1, p3 - p2
    b1n = b1 / np.linalg.norm(b1)
    v = b0 - np.dot(b0, b1n) * b1n
    w = b2 - np.dot(b2, b1n) * b1n
    return math.degrees(math.atan2(np.dot(np.cross(b1n, v), w), np.dot(v, w)))


class Frame:
    def __init__(self, R=None, t=None):
        self.R = np.eye(3) if R is None else R
        self.t = np.zeros(3) if t is None else t

    def __call__(self, p):
        return self.R @ p + self.t


def next_frame(prev, omega=180.0):
    """frame of residue i+1 given the frame of residue i: C-1 -> C_i, N -> N+1_i, omega as requested"""
    np1, cm1 = _peptide_pseudo()
    tn = template("ALA")  # backbone frame is shared by all amino acid templates
    c_i, n_next, ca_i = prev(tn["C"]), prev(np1), prev(tn["CA"])
    # template points of the new residue
    a_cm1, a_n, a_ca = cm1, tn["N"], tn["CA"]
    R1 = _align(a_n - a_cm1, n_next - c_i)
    t1 = c_i - R1 @ a_cm1
    f = Frame(R1, t1)
    # rotate about the C_i -> N_{i+1} axis to set omega = dihedral(CA_i, C_i, N_{i+1}, CA_{i+1})
    cur = dihedral(ca_i, c_i, f(a_n), f(a_ca))
    Rz = _rot_axis(n_next - c_i, math.radians(omega - cur))
    R2 = Rz @ R1
    t2 = c_i - R2 @ a_cm1
    g = Frame(R2, t2)
    if abs(((dihedral(ca_i, c_i, g(a_n), g(a_ca)) - omega + 180) % 360) - 180) > 1e-6:
        Rz = _rot_axis(n_next - c_i, -math.radians(omega - cur))
        R2 = Rz @ R1
        g = Frame(R2, c_i - R2 @ a_cm1)
    return g


HEAVY = lambda n: not n.startswith("H") and n not in ("N+1", "C-1")


def peptide(seq, chain="A", start=1, hydrogens=False, oxt=True, omit=(), icodes=None, origin=(0.0, 0.0, 0.0),
            names=None, het=False):
    """seq: list of residue (template) names, e.g. ["ALA", "ASH", "LYS"].  Returns a list of atom dicts.
    omit: set of (index, atomname) not to write.  names: residue names to write (default = seq)."""
    atoms = []
    fr = Frame(np.eye(3), np.array(origin, dtype=float))
    for i, rn in enumerate(seq):
        if i > 0:
            fr = next_frame(fr)
        tpl = template(rn)
        last = i == len(seq) - 1
        extra = {}
        if last and oxt:
            ct = "C" + rn if ("C" + rn) in definitions().map else "CALA"
            t2 = template(ct)
            if "OXT" in t2:
                extra["OXT"] = t2["OXT"]
        for n, p in list(tpl.items()) + list(extra.items()):
            if n in ("N+1", "C-1"):
                continue
            if not hydrogens and n.startswith("H"):
                continue
            if (i, n) in omit:
                continue
            atoms.append({"rec": "HETATM" if het else "ATOM", "name": n, "resname": (names or seq)[i], "chain": chain,
                          "resseq": start + i, "icode": (icodes or {}).get(i, ""), "xyz": fr(p), "res_index": i})
    return atoms


def cap_nh2(nres, chain="A", resseq=None, start=1, origin=(0.0, 0.0, 0.0)):
    """the amide cap NH2 (one HETATM atom N) bonded to the C of the last residue of a peptide(seq) of nres residues built with
    the same start / origin: it sits where the next residue's N would be"""
    fr = Frame(np.eye(3), np.array(origin, dtype=float))
    for _ in range(nres - 1):
        fr = next_frame(fr)
    np1, _cm1 = _peptide_pseudo()
    return [{"rec": "HETATM", "name": "N", "resname": "NH2", "chain": chain, "resseq": start + nres if resseq is None else resseq,
             "icode": "", "xyz": fr(np1), "res_index": nres, "element": "N"}]


def water(pos, chain="A", resseq=900, name="HOH"):
    return [{"rec": "HETATM", "name": "O", "resname": name, "chain": chain, "resseq": resseq, "icode": "",
             "xyz": np.array(pos, dtype=float)}]


def transform(atoms, R=None, t=(0, 0, 0)):
    R = np.eye(3) if R is None else R
    out = []
    for a in atoms:
        b = dict(a)
        b["xyz"] = R @ a["xyz"] + np.array(t, dtype=float)
        out.append(b)
    return out


def pdb_line(a, serial):
    nm = a["name"]
    name = nm if len(nm) == 4 else " " + nm.ljust(3)
    x, y, z = a["xyz"]
    el = a.get("element") or nm.lstrip("0123456789")[0]
    return (f"{a['rec']:<6s}{serial:5d} {name}{a.get('alt', ' ') or ' '}{a['resname']:>3s} {a['chain'] or ' '}"
            f"{a['resseq']:4d}{a['icode'] or ' '}   {x:8.3f}{y:8.3f}{z:8.3f}{a.get('occ', 1.0):6.2f}{0.0:6.2f}          {el:>2s}")


def pdb_text(chains, ter=True, end=True):
    """chains: list of atom lists (a TER record is written after each)"""
    out, serial = [], 0
    for atoms in chains:
        for a in atoms:
            serial += 1
            out.append(pdb_line(a, serial))
        if ter:
            out.append("TER")
    if end:
        out.append("END")
    return "\n".join(out) + "\n"


AMINO = ["ALA", "ARG", "ASN", "ASP", "CYS", "GLN", "GLU", "GLY", "HIS", "ILE", "LEU", "LYS", "MET", "PHE", "PRO",
         "SER", "THR", "TRP", "TYR", "VAL"]
FORCE_FIELDS = ["AMBER", "CHARMM", "PARSE", "PEOEPB", "SWANSON", "TYL06"]


def mol2_atoms(path):
    """(name, np.array xyz) of the ATOM section of a MOL2 file (independent reader)"""
    out, on = [], False
    for ln in open(path):
        if ln.startswith("@<TRIPOS>"):
            on = ln.strip() == "@<TRIPOS>ATOM"
            continue
        if on and ln.strip():
            w = ln.split()
            out.append((w[1], np.array([float(w[2]), float(w[3]), float(w[4])])))
    return out


def ligand_hetatm(mol2_path, resname="LIG", chain="L", resseq=500, move_to=None):
    at = mol2_atoms(mol2_path)
    cen = sum(p for _, p in at) / len(at)
    shift = (np.array(move_to, dtype=float) - cen) if move_to is not None else np.zeros(3)
    return [{"rec": "HETATM", "name": n, "resname": resname, "chain": chain, "resseq": resseq, "icode": "",
             "xyz": p + shift} for n, p in at]


def nucleic(seq, kind="D", chain="N", start=1, hydrogens=False, origin=(0.0, 0.0, 0.0), names=None, step=(0.0, 0.0, 7.0)):
    """seq: bases, e.g. "ACGT" (kind "D": DNA residues DA DC DG DT; "R": RNA A C G U).  Template copies translated by
    `step` per nucleotide (pdb2pqr makes no inter-nucleotide geometry checks)."""
    atoms = []
    for i, b in enumerate(seq):
        tname = ("D" if kind == "D" else "R") + b
        if tname not in definitions().map:
            raise KeyError(tname)
        tpl = template(tname)
        pdbname = (names[i] if names else (("D" + b) if kind == "D" else b))
        for n, p in tpl.items():
            if not hydrogens and n.startswith("H"):
                continue
            atoms.append({"rec": "ATOM", "name": n, "resname": pdbname, "chain": chain, "resseq": start + i, "icode": "",
                          "xyz": p + np.array(origin) + i * np.array(step), "res_index": i,
                          "element": n[0]})
    return atoms


def randomize_sidechains(atoms, rng, seqnames=None):
    """Rotate, in every residue, the far side of every acyclic side-chain bond (chi angles, including terminal groups)
    by a random angle.  Bond lengths and angles stay those of the templates; only torsions change."""
    byres = {}
    for a in atoms:
        byres.setdefault(a.get("res_index"), []).append(a)
    for ri, ats in byres.items():
        if ri is None:
            continue
        tname = (seqnames[ri] if seqnames else ats[0]["resname"])
        if tname not in definitions().map:
            continue
        bd = bonds(tname)
        present = {a["name"]: a for a in ats}
        graph = {n: [m for m in bd.get(n, []) if m in present] for n in present}
        for n in graph:                     # symmetric closure
            for m in graph[n]:
                if n not in graph[m]:
                    graph[m].append(n)
        if "CA" not in graph:
            continue
        depth, order = {"CA": 0}, ["CA"]
        for n in order:
            for m in graph[n]:
                if m not in depth:
                    depth[m] = depth[n] + 1
                    order.append(m)
        for a_ in order:
            for b_ in graph[a_]:
                if depth.get(b_, -1) != depth[a_] + 1 or a_ in ("N", "C", "O") or b_ in ("N", "C", "O", "OXT"):
                    continue
                # far side of the bond a_-b_
                far, stack = {b_}, [b_]
                while stack:
                    for m in graph[stack.pop()]:
                        if m not in far and not (m == a_):
                            far.add(m)
                            stack.append(m)
                if far & {"N", "C", "CA"} or len(far) < 2 and not b_.startswith(("O", "N", "S", "C")):
                    continue
                # a cycle through a_ shows up as a_'s other neighbours being in far
                if any(m in far for m in graph[a_] if m != b_):
                    continue
                R = _rot_axis(present[b_]["xyz"] - present[a_]["xyz"], rng.uniform(-math.pi, math.pi))
                o = present[a_]["xyz"]
                for m in far:
                    if m != b_:
                        present[m]["xyz"] = R @ (present[m]["xyz"] - o) + o
    return atoms


EQUIVALENT_NAMES = {
    "ASP": [("OD1", "OD2")], "ASH": [("OD1", "OD2")], "GLU": [("OE1", "OE2")], "GLH": [("OE1", "OE2")],
    "ARG": [("NH1", "NH2")], "VAL": [("CG1", "CG2")], "LEU": [("CD1", "CD2")],
    "PHE": [("CD1", "CD2"), ("CE1", "CE2")], "TYR": [("CD1", "CD2"), ("CE1", "CE2")],
    "ASN": [("OD1", "ND2")], "GLN": [("OE1", "NE2")], "HIS": [("ND1", "CD2"), ("CE1", "NE2")],
}


def swap_names(atoms, res_index, pairs):
    """exchange the coordinates of the named atom pairs of one residue (the other labelling of chemically equivalent
    positions, or the flipped amide / imidazole)"""
    by = {a["name"]: a for a in atoms if a.get("res_index") == res_index}
    for p, q in pairs:
        if p in by and q in by:
            by[p]["xyz"], by[q]["xyz"] = by[q]["xyz"], by[p]["xyz"]
    return atoms


def set_bond_length(atoms, res_index, a, b, length):
    """move atom b of the residue along a->b so that |ab| = length"""
    by = {x["name"]: x for x in atoms if x.get("res_index") == res_index}
    if a in by and b in by:
        v = by[b]["xyz"] - by[a]["xyz"]
        by[b]["xyz"] = by[a]["xyz"] + v / np.linalg.norm(v) * length
    return atoms


def alt_names(resname, nterm=False, cterm=False):
    """canonical atom name -> alternative spellings declared by the topology: the residue definition, plus the terminus
    patch for the first / last residue of a chain"""
    d = definitions()
    out = {}
    srcs = [getattr(d.map.get(resname), "altnames", {}) or {}]
    pats = d.patches if isinstance(d.patches, dict) else {getattr(p, "name", ""): p for p in d.patches}
    for pn, use in (("NTERM", nterm), ("CTERM", cterm)):
        if use and pn in pats:
            srcs.append(getattr(pats[pn], "altnames", {}) or {})
    for src in srcs:
        for alt, name in src.items():
            out.setdefault(name, [])
            if alt not in out[name]:
                out[name].append(alt)
    return out


def respell(atoms, style=0, seqnames=None, only=None):
    """write atoms under alternative spellings the topology declares (style picks among several; 0: first).
    only: restrict to these canonical names"""
    last = max((a["res_index"] for a in atoms if a.get("res_index") is not None), default=None)
    out = []
    for a in atoms:
        ri = a.get("res_index")
        rn = (seqnames[ri] if seqnames and ri is not None else a["resname"])
        alts = alt_names(rn, nterm=(ri == 0), cterm=(ri == last)).get(a["name"], []) if ri is not None else []
        b = dict(a)
        if alts and (only is None or a["name"] in only):
            b["name"] = alts[min(style, len(alts) - 1)]
        out.append(b)
    return out


def carbon_contact(rng, x, seq=None, pos=1, parent=None, axial=False):
    """ALA-x-ALA (heavy atoms) and, as chain B, one alanine whose CB lies close to a heavy atom of x that will carry
    hydrogens, on the side those hydrogens will point to (a non-acceptor contact: the debumper has to turn the group).
    Returns (chains, description) or None when no clean placement was found."""
    seq = seq or ["ALA", x, "ALA"]
    full = peptide(seq, hydrogens=True)
    if rng.random() < 0.75:
        # another side-chain conformation (the extended template one has contacts of its own)
        randomize_sidechains(full, rng)
    heavy = [dict(a) for a in full if not a["name"].startswith("H")]
    hs = [a for a in full if a["name"].startswith("H") and a["res_index"] == pos and a["name"] not in ("H", "HA", "HA2", "HA3")]
    if not hs:
        return None
    mine = [a for a in heavy if a["res_index"] == pos]
    par = {}
    for h in hs:
        p = min(mine, key=lambda a: np.linalg.norm(a["xyz"] - h["xyz"]))
        par.setdefault(p["name"], []).append(h)
    for _ in range(30):
        pn = parent if parent in par else rng.choice(sorted(par))
        p = next(a for a in mine if a["name"] == pn)
        d = sum((h["xyz"] - p["xyz"]) for h in par[pn])
        jitter = 0.15
        if axial and np.linalg.norm(d) >= 0.2:
            # on the axis of the group and close: every hydrogen of the group is in contact, and only those
            jitter = 0.06
        elif np.linalg.norm(d) < 0.2 or rng.random() < 0.6:
            # towards one of the hydrogens (off the axis of the group: turning the group changes the contact)
            d = rng.choice(par[pn])["xyz"] - p["xyz"]
            jitter = 0.35
        d = d / np.linalg.norm(d) + jitter * np.array([rng.uniform(-1, 1) for _ in range(3)])
        d = d / np.linalg.norm(d)
        target = p["xyz"] + (rng.uniform(1.3, 1.47) if axial else rng.uniform(1.35, 2.1)) * d
        ala = peptide(["ALA"], chain="B", start=1)
        cb = next(a for a in ala if a["name"] == "CB")["xyz"]
        ca = next(a for a in ala if a["name"] == "CA")["xyz"]
        R = _align(ca - cb, d)
        ala = transform(ala, R=R)
        cb = next(a for a in ala if a["name"] == "CB")["xyz"]
        ala = transform(ala, t=target - cb)
        ok = all(np.linalg.norm(a["xyz"] - b["xyz"]) > (1.3 if (a["name"] == "CB" and b is p) else 2.3) for a in ala for b in heavy)
        if ok:
            return [heavy, ala], f"carbon contact {'-'.join(seq)} {pn}..CB {np.linalg.norm(target - p['xyz']):.2f} A"
    return None


POLAR_PARENTS = {"LYS": ["NZ"], "ARG": ["NH1", "NH2", "NE"], "SER": ["OG"], "THR": ["OG1"], "TYR": ["OH"], "ASN": ["ND2"], "GLN": ["NE2"],
                 "HIS": ["ND1", "NE2"], "CYS": ["SG"], "TRP": ["NE1"], "MET": ["CE"], "ILE": ["CD1"], "LEU": ["CD1", "CD2"], "VAL": ["CG1"]}


def protonated_with_clashes(rng, seq=None, nwat=3):
    """a peptide that already carries all its hydrogens (as an NMR model or an earlier pdb2pqr output does) and waters placed
    just beyond some side-chain hydrogens.  Returns (chains, description)."""
    seq = seq or [rng.choice(AMINO) for _ in range(rng.randint(3, 6))]
    full = peptide(seq, hydrogens=True)
    if rng.random() < 0.5:
        randomize_sidechains(full, rng)
    heavy = [a for a in full if not a["name"].startswith("H")]
    hs = [a for a in full if a["name"].startswith("H") and a["name"] not in ("H", "HA", "HA2", "HA3", "H1", "H2", "H3")]
    wats = []
    for w in range(nwat):
        if not hs:
            break
        h = rng.choice(hs)
        p = min((a for a in heavy if a["res_index"] == h["res_index"]), key=lambda a: np.linalg.norm(a["xyz"] - h["xyz"]))
        v = h["xyz"] - p["xyz"]
        v = v / np.linalg.norm(v) + 0.35 * np.array([rng.uniform(-1, 1) for _ in range(3)])
        q = h["xyz"] + rng.uniform(0.2, 0.9) * v / np.linalg.norm(v)
        if all(np.linalg.norm(q - a["xyz"]) > 2.2 for a in heavy) and all(np.linalg.norm(q - x[0]["xyz"]) > 2.4 for x in wats):
            wats.append(water(tuple(q), chain="W", resseq=500 + w))
    return [full] + wats, f"protonated input {'-'.join(seq)} waters={len(wats)}"
