"""C10 - mmCIF and PDB encodings of one structure give the same result.

(M) TLC: CifColumns.tla over the product of atom_site value shapes x both missing-value conventions (SameAtomAsPdb on the
    model of the current assembly code); with the historical deviations TLC must find the violation.
(R) every shape is written as a real mmCIF file (independent writer, non-atom categories taken from tests/data/1FAS.cif)
    and as a PDB file; both are read by the real io.get_molecule; the "verbatim" convention is realised by a shim that
    re-maps the installed parser's missing values.
(T) TLC (CifColumnsTrace) replays assembly+parsing per row, compares with the observed record and evaluates
    SameAtomAsPdb; whole structures (alt locs, insertion codes, negative numbers, four-character names, two models)
    are run through the pipeline in both encodings and the PQR atoms compared.
"""
import json
import os
import random
import shutil

from .. import core, gen

LEVEL = "model_checking"
DATA = os.path.join(core.REPO, "tests", "data")
CODE_CONSTS = {"AltDropped": "FALSE", "IcodeIgnored": "FALSE", "Name4Shifted": "FALSE"}
FIELDS = dict(Groups=["ATOM", "HETATM"], Ids=["1", "12345"], Names=["N", "CA", "HD11"], Alts=["", "A"],
              Comps=["ALA", "DA", "A"], Asyms=["A"], Seqs=["1", "-4", "1000"], ICodes=["", "B"],
              Xs=["1.000", "-12.345", "-100.123", "1000.500"], Ys=["2.500", "-100.000"], Zs=["-3.250"], Charges=["", "1"])


FIELDS_THOROUGH = dict(Groups=["ATOM", "HETATM"], Ids=["1", "12345"], Names=["N", "CA", "HB2", "HD11", "1HB"], Alts=["", "B"],
                       Comps=["ALA", "DA", "A", "HOH"], Asyms=["A"], Seqs=["1", "-4", "1000", "9999", "-999"], ICodes=["", "B"],
                       Xs=["1.000", "-12.345", "-100.123", "1000.500", "-999.999", "9999.999"], Ys=["2.500", "-100.000"], Zs=["-3.250"],
                       Charges=["", "2"])


def cfg_text(consts, emit, inv, spec="Spec", convs=("verbatim", "pdbx2")):
    s = f"SPECIFICATION {spec}\nCONSTANTS\n"
    for k, v in CUR_FIELDS.items():
        s += f"  {k} = {{" + ", ".join(json.dumps(x) for x in v) + "}\n"
    s += "  Conventions = {" + ", ".join(json.dumps(c) for c in convs) + "}\n"
    for k, v in consts.items():
        s += f"  {k} = {v}\n"
    return s + f"  Emit = {emit}\nINVARIANT {inv}\n"


_HEADER = None


def cif_header():
    global _HEADER
    if _HEADER is None:
        lines = open(os.path.join(DATA, "1FAS.cif")).read().split("\n")
        k = next(i for i, ln in enumerate(lines) if ln.startswith("_atom_site.group_PDB"))
        _HEADER = "\n".join(lines[:k - 1]) + "\n"
    return _HEADER


ITEMS = ["group_PDB", "id", "type_symbol", "label_atom_id", "label_alt_id", "label_comp_id", "label_asym_id",
         "label_entity_id", "label_seq_id", "pdbx_PDB_ins_code", "Cartn_x", "Cartn_y", "Cartn_z", "occupancy",
         "B_iso_or_equiv", "pdbx_formal_charge", "auth_seq_id", "auth_comp_id", "auth_asym_id", "auth_atom_id",
         "pdbx_PDB_model_num"]


def cif_text(rows, omit=()):
    """rows: dicts with group,id,name,alt,comp,asym,seq,icode,x,y,z,charge,model,labelseq,element; omit: optional items left
    out of the loop altogether"""
    keep = [i for i, it in enumerate(ITEMS) if it not in omit]
    out = [cif_header(), "loop_"]
    out += [f"_atom_site.{ITEMS[i]} " for i in keep]

    def q(s):
        return f'"{s}"' if ("'" in s) else s
    for r in rows:
        vals = [r["group"], r["id"], r.get("element", "C"), q(r["name"]), r["alt"] or ".", r["comp"], r["asym"], "1",
                str(r.get("labelseq", 1)), r["icode"] or "?", r["x"], r["y"], r["z"], "1.00", "20.00", r["charge"] or "?",
                r["seq"], r["comp"], r["asym"], q(r["name"]), str(r.get("model", 1))]
        out.append(" ".join(vals[i] for i in keep) + " ")
    out.append("#")
    return "\n".join(out) + "\n"


def pdb_record(r):
    nm = r["name"]
    name = nm if len(nm) == 4 else " " + nm.ljust(3)
    return (f"{r['group']:<6s}{int(r['id']):5d} {name}{r['alt'] or ' '}{r['comp']:>3s} {r['asym']}{int(r['seq']):4d}"
            f"{r['icode'] or ' '}   {r['x']:>8s}{r['y']:>8s}{r['z']:>8s}{'1.00':>6s}{'20.00':>6s}          {r.get('element', 'C'):>2s}"
            + (f"{r['charge']}+" if r["charge"] else ""))


class _Shim:
    """re-maps the installed parser's missing values to the verbatim markers ("" -> ".", None -> "?")"""

    def __init__(self, conv):
        self.conv = conv

    def __enter__(self):
        import pdbx
        self.pdbx = pdbx
        self.orig = pdbx.load
        if self.conv == "verbatim":
            orig = self.orig

            def load(fp):
                data = orig(fp)
                for block in data:
                    for name in block.get_object_name_list():
                        obj = block.get_object(name)
                        for row in obj.row_list:
                            for k, v in enumerate(row):
                                if v == "":
                                    row[k] = "."
                                elif v is None:
                                    row[k] = "?"
                return data
            pdbx.load = load
        return self

    def __exit__(self, *a):
        self.pdbx.load = self.orig


def fields_of(rec):
    return {"type": type(rec).__name__, "name": rec.name, "alt": rec.alt_loc, "resname": rec.res_name, "chain": rec.chain_id,
            "resseq": str(rec.res_seq), "icode": rec.ins_code, "x": f"{rec.x:.3f}", "y": f"{rec.y:.3f}", "z": f"{rec.z:.3f}"}


def _row_job(args):
    shapes, wdir = args
    core.use_repo()
    from pdb2pqr import io as pio, pdb as ppdb

    out = []
    base = os.path.join(wdir, f"c10-{os.getpid()}")
    for f in shapes:
        row = dict(f)
        open(base + ".cif", "w").write(cif_text([row]))
        open(base + ".pdb", "w").write(pdb_record(row) + "\nEND\n")
        res = {}
        try:
            with _Shim(f["conv"]):
                pl, _ = pio.get_molecule(base + ".cif")
            recs = [r for r in pl if isinstance(r, (ppdb.ATOM, ppdb.HETATM))]
            res["obs"] = fields_of(recs[0]) if len(recs) == 1 else {"type": f"{len(recs)} records"}
        except Exception as e:
            res["obs"] = {"type": "raise:" + type(e).__name__}
        try:
            pl, _ = pio.get_molecule(base + ".pdb")
            recs = [r for r in pl if isinstance(r, (ppdb.ATOM, ppdb.HETATM))]
            res["pdb"] = fields_of(recs[0]) if len(recs) == 1 else {"type": f"{len(recs)} records"}
        except Exception as e:
            res["pdb"] = {"type": "raise:" + type(e).__name__}
        out.append(res)
    for ext in (".cif", ".pdb"):
        try:
            os.unlink(base + ext)
        except OSError:
            pass
    return out


def structures(rng):
    """whole structures in both encodings: list of (name, rows)"""
    out = []

    def rows_from(atoms, model=1, start_id=1, alt=None):
        rows = []
        res_index = {}
        for k, a in enumerate(atoms):
            key = (a["chain"], a["resseq"], a["icode"])
            res_index.setdefault(key, len(res_index) + 1)
            x, y, z = (f"{v:.3f}" for v in a["xyz"])
            rows.append({"group": a["rec"], "id": str(start_id + k), "name": a["name"], "alt": a.get("alt", "") or "",
                         "comp": a["resname"], "asym": a["chain"], "seq": str(a["resseq"]), "icode": a["icode"], "x": x, "y": y,
                         "z": z, "charge": "", "model": model, "labelseq": res_index[key], "element": a["name"][0]})
        return rows
    plain = gen.peptide(["ALA", "SER", "LYS", "GLY", "ASP", "TRP"]) + gen.water((6, 14, 4), resseq=101)
    out.append(("plain", rows_from(plain)))
    out.append(("negative-numbers", rows_from(gen.peptide(["ALA", "SER", "LYS", "GLY", "ASP"], start=-3))))
    ic = gen.peptide(["ALA", "SER", "LYS", "GLY", "ASP"], start=50, icodes={2: "A", 3: "B"})
    for a in ic:
        if a["res_index"] in (2, 3):
            a["resseq"] = 51
    out.append(("insertion-codes", rows_from(ic)))
    altp = []
    for a in gen.peptide(["ALA", "SER", "VAL", "GLY"]):
        if a["res_index"] == 2 and a["name"] in ("CG1", "CG2"):
            altp.append(dict(a, alt="A"))
            altp.append(dict(a, alt="B", xyz=a["xyz"] + 0.3))
        else:
            altp.append(a)
    out.append(("alternate-locations", rows_from(altp)))
    big = gen.transform(gen.peptide(["ALA", "SER", "LYS", "GLY", "ASP"]), t=(-140.0, 1020.0, 7.0))
    out.append(("wide-coordinates", rows_from(big)))
    hp = gen.peptide(["ALA", "LEU", "LYS", "GLY"], hydrogens=True)
    out.append(("four-character-names", rows_from(hp)))
    m1 = gen.peptide(["ALA", "SER", "LYS", "GLY"])
    m2 = gen.transform(m1, t=(0.4, -0.3, 0.2))
    out.append(("two-models-8-9", rows_from(m1, model=8) + rows_from(m2, model=9, start_id=len(m1) + 1)))
    out.append(("two-models-9-10", rows_from(m1, model=9) + rows_from(m2, model=10, start_id=len(m1) + 1)))
    # nucleic acids with hydrogens: names with primes and doubled primes (H5', H5'', H2'')
    out.append(("dna-with-hydrogens", rows_from(gen.nucleic("ATG", "D", hydrogens=True))))
    out.append(("rna-with-hydrogens", rows_from(gen.nucleic("GU", "R", hydrogens=True))))
    # serial numbers that do not follow the record order (a segment appended without renumbering)
    pep8 = gen.peptide(["ALA", "SER", "LYS", "GLY", "ASP", "VAL"])
    rows8 = rows_from(pep8)
    nfirst = sum(1 for a in pep8 if a["res_index"] < 2)
    for k, r_ in enumerate(rows8):
        r_["id"] = str(k + 1 + (len(rows8) if k < nfirst else -nfirst))      # the first two residues carry the highest serials
    out.append(("serials-not-monotonic", rows8))
    # a residue of the chain recorded as HETATM, with ATOM rows after it (file order must be kept)
    het = []
    for a in gen.peptide(["ALA", "SER", "LYS", "GLY", "ASP"]):
        het.append(dict(a, rec="HETATM") if a["res_index"] == 1 else a)
    out.append(("hetatm-residue-inside-chain", rows_from(het + gen.water((6, 14, 4), resseq=101))))
    # alternate locations beyond the plain A/B pair: an atom present only as B, a residue labelled C/D after one labelled A/B
    alt2 = []
    for a in gen.peptide(["ALA", "VAL", "SER", "LEU", "GLY"]):
        if a["res_index"] == 1 and a["name"] == "CG1":
            alt2 += [dict(a, alt="A"), dict(a, alt="B", xyz=a["xyz"] + 0.3)]
        elif a["res_index"] == 1 and a["name"] == "CG2":
            alt2.append(dict(a, alt="B"))                      # only the B location of this atom is modelled
        elif a["res_index"] == 3 and a["name"] in ("CD1", "CD2"):
            alt2 += [dict(a, alt="C"), dict(a, alt="D", xyz=a["xyz"] + 0.25)]
        elif a["res_index"] == 2 and a["name"] == "OG":
            alt2 += [dict(a, alt="B"), dict(a, alt="A", xyz=a["xyz"] + 0.2)]      # B listed before A
        else:
            alt2.append(a)
    out.append(("alternate-locations-irregular", rows_from(alt2)))
    # rows of the two models not contiguous (entity-major order: each row carries its own model number)
    w1 = gen.water((6, 14, 4), resseq=101) + gen.water((-5, 10, 3), resseq=102)
    w2 = gen.transform(w1, t=(0.4, -0.3, 0.2))
    n1, nw = len(m1), len(w1)
    out.append(("two-models-interleaved", rows_from(m1, model=1) + rows_from(m2, model=2, start_id=n1 + nw + 1)
                + rows_from(w1, model=1, start_id=n1 + 1) + rows_from(w2, model=2, start_id=2 * n1 + nw + 1)))
    return out


def pdb_text_of(rows):
    out, models = [], sorted(set(r["model"] for r in rows), key=lambda m: [r["model"] for r in rows].index(m))
    multi = len(models) > 1
    for m in models:
        if multi:
            out.append(f"MODEL     {m:4d}")
        out += [pdb_record(r) for r in rows if r["model"] == m]
        out.append("TER")
        if multi:
            out.append("ENDMDL")
    out.append("END")
    return "\n".join(out) + "\n"


def parse_pqr(text):
    """fixed-column reader of the default PQR layout"""
    out = []
    for ln in text.split("\n"):
        if ln.startswith(("ATOM", "HETATM")):
            out.append({"type": ln[0:6].strip(), "name": ln[12:16].strip(), "resname": ln[17:20].strip(),
                        "resseq": ln[22:27].strip(), "x": ln[30:38].strip(), "y": ln[38:46].strip(), "z": ln[46:54].strip(),
                        "q": ln[54:62].strip(), "r": ln[62:69].strip()})
    return out


def _struct_job(job):
    from .. import runner

    name, rows, ff, conv, *rest = job
    wd = os.path.join(core.VERIF, ".work", f"c10s-{os.getpid()}")
    os.makedirs(wd, exist_ok=True)
    # the encoding is recognised by the file suffix in any case (s.cif, S.CIF, s.Cif)
    k = sum(map(ord, name)) % 3
    fn = {"pdb": ("s.pdb", "S.PDB", "s.pdb")[k], "cif": ("s.cif", "S.CIF", "s.Cif")[k]}
    open(os.path.join(wd, fn["pdb"]), "w").write(pdb_text_of(rows))
    open(os.path.join(wd, fn["cif"]), "w").write(cif_text(rows, omit=rest[0] if rest else ()))
    res = {}
    for enc in ("pdb", "cif"):
        with _Shim(conv):
            r = runner.run([f"--ff={ff}", os.path.join(wd, fn[enc]), os.path.join(wd, "o.pqr")])
        atoms = []
        if r["ok"]:
            for a in parse_pqr(open(os.path.join(wd, "o.pqr")).read()):
                atoms.append([a["type"], a["name"], a["resname"], a["resseq"], a["x"], a["y"], a["z"], a["q"], a["r"]])
        res[enc] = {"ok": r["ok"], "exc": r["exc_type"], "msg": str(r["exc"])[:100] if r["exc"] else "", "atoms": atoms,
                    "missed": len(r["missed"] or []) if r["ok"] else -1}
    shutil.rmtree(wd, ignore_errors=True)
    return res


def feature(f):
    return "+".join(x for x, c in (("alt", f["alt"] != ""), ("icode", f["icode"] != ""), ("name4", len(f["name"]) == 4),
                                   ("coord8", max(len(f["x"]), len(f["y"]), len(f["z"])) >= 8), ("seq4", len(f["seq"]) >= 4),
                                   ("comp<3", len(f["comp"]) < 3), ("id5", len(f["id"]) >= 5)) if c) or "plain"


CUR_FIELDS = FIELDS


def run(ctx):
    global CUR_FIELDS
    CUR_FIELDS = FIELDS if ctx.quick else FIELDS_THOROUGH
    rng = random.Random(ctx.seed)
    ctx.rule = ("rows: product of atom_site value shapes (record type, id width, atom name 1-4, alt id, comp id 1-3, "
                "residue number incl. negative / 4 digits, insertion code, coordinate widths 5-8, formal charge) x 2 "
                "missing-value conventions; structures: eight generated structures in both encodings x force fields. "
                "Distinct = distinct shape / (structure, force field, convention); non-trivial = any field beyond the plain case")
    ctx.assumptions += ["label_* and auth_* items carry the same atom/residue/chain names (only the sequence numbers differ)",
                        "only mmcif-pdbx 2.1.0 is installed: the 'verbatim' convention is realised by a shim that re-maps "
                        "missing values after pdbx.load", "non-atom_site categories are copied from tests/data/1FAS.cif"]
    ctx.trusted += ["vlib/checks/c10.py (mmCIF/PDB writers, convention shim, field projection)", "TLC 1.8"]
    cfg = os.path.join(ctx.work, "c.cfg")
    open(cfg, "w").write(cfg_text(CODE_CONSTS, "FALSE", "SameAtomAsPdb"))
    r = core.run_tlc("CifColumns", cfg, ctx.work, timeout=1200)
    core.need_ok(r, "CifColumns")
    ctx.add_tlc(r, "model of the current assembly code")
    ctx.extra["model_violates_SameAtomAsPdb"] = bool(r.invariant)
    dev = {"AltDropped": "TRUE", "IcodeIgnored": "TRUE", "Name4Shifted": "TRUE"}
    open(cfg, "w").write(cfg_text(dev, "FALSE", "SameAtomAsPdb"))
    r0 = core.run_tlc("CifColumns", cfg, ctx.work, timeout=600)
    if not r0.invariant:
        raise core.MachineryError("self-test failed: historical assembly code does not violate SameAtomAsPdb")
    ctx.add_tlc(r0, "historical deviations: violation found as required")
    open(cfg, "w").write(cfg_text(CODE_CONSTS, "TRUE", "EmitInv"))
    r = core.run_tlc("CifColumns", cfg, ctx.work, workers=8, timeout=1200)
    core.need_ok(r, "CifColumns emit")
    ctx.add_tlc(r, "shape emission")
    shapes = [json.loads(v[1:]) for v in r.printed if isinstance(v, str) and v.startswith("@")]
    want = 2
    for v in CUR_FIELDS.values():
        want *= len(v)
    if len(shapes) != want:
        raise core.MachineryError(f"emitted {len(shapes)} shapes, expected {want}")
    ctx.exhaustive = True
    if ctx.quick:
        shapes = [s for k, s in enumerate(shapes) if (k + ctx.seed) % 3 == 0]
        ctx.exhaustive = False
    chunks = [shapes[i:i + 100] for i in range(0, len(shapes), 100)]
    obs = core.pmap(_row_job, [([s["f"] for s in ch], ctx.work) for ch in chunks], chunksize=1)
    traces = []
    for ch, ob in zip(chunks, obs):
        for s, o in zip(ch, ob):
            traces.append({"id": len(traces) + 1, "kind": "row", "f": s["f"], "obs": o["obs"], "pdb": o["pdb"], "a1": [], "a2": [],
                           "what": f"row {s['f']}"})
            ctx.evaluations += 1
            if feature(s["f"]) != "plain":
                ctx.nontrivial.add(json.dumps(s["f"], sort_keys=True))
    sjobs = []
    for name, rows in structures(rng):
        for ff in (["AMBER"] if ctx.quick else ["AMBER", "PARSE", "CHARMM"]):
            for conv in ("pdbx2", "verbatim"):
                sjobs.append((name, rows, ff, conv))
    # optional items left out of the loop where the structure does not need them
    byname = dict(structures(random.Random(ctx.seed)))
    # (only the two items the reader treats as optional; a file without occupancy / B factor / formal charge columns is
    # refused loudly with ValueError, which is C12's business, not a silent difference)
    for name, omit in (("plain", ["pdbx_PDB_ins_code"]), ("plain", ["label_alt_id"]), ("negative-numbers", ["pdbx_PDB_ins_code", "label_alt_id"]),
                       ("wide-coordinates", ["pdbx_PDB_ins_code"]), ("four-character-names", ["label_alt_id"])):
        for conv in ("pdbx2", "verbatim"):
            sjobs.append((f"{name} without {'+'.join(omit)}", byname[name], "AMBER", conv, omit))
    sres = core.pmap(_struct_job, sjobs, chunksize=1)
    plain = traces[0]["f"]
    for (name, rows, ff, conv, *_omit), res in zip(sjobs, sres):
        ctx.evaluations += 1
        what = f"structure {name} ff={ff} convention={conv}"
        if not res["pdb"]["ok"]:
            ctx.drift.append({"what": what, "pdb_run_failed": res["pdb"]["exc"], "msg": res["pdb"]["msg"]})
            continue
        ctx.nontrivial.add(what)
        if not res["cif"]["ok"]:
            ctx.violation({"clause": "CifRunSucceeds", "structure": name, "conv": conv, "exc": res["cif"]["exc"]},
                          f"{what}: PDB encoding runs, mmCIF encoding fails with {res['cif']['exc']} {res['cif']['msg']}", {"rows": rows[:30]})
            continue
        traces.append({"id": len(traces) + 1, "kind": "structure", "f": plain, "obs": {"type": ""}, "pdb": {"type": ""},
                       "a1": res["pdb"]["atoms"], "a2": res["cif"]["atoms"], "what": what, "structure": name, "conv": conv})
    # several files in one process: a file without an optional column, then one that uses it (and the other way round)
    from . import c11
    fd = os.path.join(ctx.work, "hist")
    os.makedirs(fd, exist_ok=True)
    open(os.path.join(fd, "x1.cif"), "w").write(cif_text(byname["plain"], omit=["pdbx_PDB_ins_code"]))
    open(os.path.join(fd, "x1.pdb"), "w").write(pdb_text_of(byname["plain"]))
    open(os.path.join(fd, "x2.cif"), "w").write(cif_text(byname["insertion-codes"]))
    open(os.path.join(fd, "x2.pdb"), "w").write(pdb_text_of(byname["insertion-codes"]))
    hc = {k: {"input": f, "args": ["--ff=AMBER"]} for k, f in (("X1", "x1.cif"), ("X2", "x2.cif"), ("X1P", "x1.pdb"), ("X2P", "x2.pdb"))}
    hres = core.pmap(c11._work, [(h, 0, False, fd, hc) for h in (["X1P"], ["X2P"], ["X1", "X2"], ["X2", "X1"], ["X1", "X1", "X2"])], procs=5)
    want = {"X1": hres[0]["runs"][0]["atoms"] if hres[0]["runs"] else "?", "X2": hres[1]["runs"][0]["atoms"] if hres[1]["runs"] else "?"}
    for o in hres[2:]:
        hist = [r_["cfg"] for r_ in o["runs"]]
        for k, r_ in enumerate(o["runs"]):
            ctx.evaluations += 1
            traces.append({"id": len(traces) + 1, "kind": "structure", "f": plain, "obs": {"type": ""}, "pdb": {"type": ""},
                           "a1": [[want[r_["cfg"]]]], "a2": [[r_["atoms"]]], "what": f"{r_['cfg']} as run #{k + 1} of {hist} in one process (digests of the atom records)",
                           "structure": f"history {'>'.join(hist[:k + 1])}", "conv": "pdbx2"})
            ctx.nontrivial.add(traces[-1]["what"])
    tf = core.write_json(os.path.join(ctx.work, "tr.json"), [{k: t[k] for k in ("id", "kind", "f", "obs", "pdb", "a1", "a2")} for t in traces])
    open(cfg, "w").write(cfg_text(CODE_CONSTS, "FALSE", "Report", spec="TSpec"))
    r = core.run_tlc("CifColumnsTrace", cfg, ctx.work, workers=8, env={"TRACE_FILE": tf}, timeout=1200, heap="8g")
    core.need_ok(r, "CifColumnsTrace")
    ctx.add_tlc(r, "trace validation")
    got = {v[1]: v for v in r.printed if isinstance(v, list) and v and v[0] == "T"}
    if len(got) != len(traces):
        raise core.MachineryError(f"{len(got)} verdicts for {len(traces)} traces; {r.unparsed[:2]} {r.out[-600:]}")
    ctx.traces += len(traces)
    ndrift = 0
    for t in traces:
        _, _, acc, bad = got[t["id"]]
        if t["kind"] == "row":
            f = t["f"]
            for fld in bad:
                if fld.startswith("pdb:"):
                    # the PDB reader itself disagrees with the abstract fields: the generated PDB record is outside the
                    # PDB format's capacity for this shape (not a statement about the mmCIF path)
                    continue
                if ("pdb:" + fld) in bad:
                    continue
                ctx.violation({"clause": "SameAtomAsPdb", "field": fld, "conv": f["conv"], "feature": feature(f)},
                              f"{t['what']}: mmCIF path gives {t['obs']}, PDB path {t['pdb']}", {"fields": f, "cif": t["obs"], "pdb": t["pdb"]})
            if not acc:
                ndrift += 1
                if len(ctx.drift) < 15:
                    ctx.drift.append({"row": f, "observed": t["obs"]})
        else:
            for cl in bad:
                ctx.violation({"clause": cl, "structure": t["structure"], "conv": t["conv"]},
                              f"{t['what']}: {len(t['a1'])} atoms from PDB, {len(t['a2'])} from mmCIF; first difference: "
                              f"{next(((a, b) for a, b in zip(t['a1'], t['a2']) if a != b), None)}", {"what": t["what"]})
    ctx.extra["rows_not_matching_algorithm_model"] = ndrift
    ctx.sample({"row": traces[5]["f"], "cif_path": traces[5]["obs"], "pdb_path": traces[5]["pdb"]})
    st = [t for t in traces if t["kind"] == "structure"]
    if st:
        ctx.sample({"what": st[0]["what"], "atoms_pdb": st[0]["a1"][:2], "atoms_cif": st[0]["a2"][:2]})
