"""C12 - runs succeed on well-formed input, otherwise fail loudly leaving no output.

(M) TLC: MC_Pipeline over all 2^10 option sets x every fault stage x {output absent, old file present}.
(R) fault enumeration: TLC emits every (option class, enabled stage); the harness makes that stage raise at entry or
    exit (ValueError / KeyError / OSError) in a real run and also realises natural causes with generated inputs.
(T) every run is recorded by the stage wrappers and validated by TLC (PipelineTrace): stage order, which stage wrote
    what, when the output path changed, that a raising stage surfaces as an exception, and that a failed run leaves
    the path (absent, or an old file with identical bytes and mtime) untouched.
    Success side: generated complete peptides of every residue type under every built-in force field must succeed.
"""
import json
import os
import random
import shutil

from .. import core, gen

LEVEL = "fault_enumeration"
DATA = os.path.join(core.REPO, "tests", "data")

# option classes replayed (a covering set of the control-flow options); flags as pdb2pqr arguments
CLASSES = {
    "default": [],
    "clean": ["--clean"],
    "assign-only": ["--assign-only"],
    "nodebump-noopt": ["--nodebump", "--noopt"],
    "propka": ["--titration-state-method=propka", "--with-ph=6.5"],
    "outputs": ["--ffout=CHARMM", "--pdb-output=@DIR@/o_H.pdb", "--apbs-input=@DIR@/o.in", "--whitespace",
                "--include-header"],
    "dropwater": ["--drop-water", "--keep-chain", "--noopt"],
    "ligand": ["--ligand=@LIG@"],
}


def opts_record(args):
    a = " ".join(args)
    return {"clean": "--clean" in args, "assignOnly": "--assign-only" in args, "debump": "--nodebump" not in args,
            "opt": "--noopt" not in args, "pka": "propka" in a, "ligand": "--ligand=" in a, "ffout": "--ffout=" in a,
            "dropWater": "--drop-water" in args, "pdbOut": "--pdb-output=" in a, "apbsIn": "--apbs-input=" in a}


def base_input(with_h=False):
    pep = gen.peptide(["ALA", "ASP", "HIS", "LYS", "SER"], hydrogens=with_h)
    wat = gen.water((6.0, 14.0, 4.0), chain="A", resseq=101)
    lig = gen.ligand_hetatm(os.path.join(DATA, "acetate.mol2"), move_to=(-14.0, -12.0, 6.0))
    return pep, wat, lig


def write_case(wd, klass, with_h=False):
    pep, wat, lig = base_input(False)
    chains = [pep + wat]
    if klass == "ligand":
        chains.append(lig)
    path = os.path.join(wd, "in.pdb")
    if with_h:
        # a hydrogen-complete input for --assign-only: the PDB output of an ordinary (untraced) run on a peptide
        # without histidine (--assign-only forces HIS to HIP, which a singly protonated histidine cannot satisfy)
        from .. import runner
        seq = ["ALA", "ASP", "GLY", "LYS", "SER"]
        open(path, "w").write(gen.pdb_text([gen.peptide(seq) + wat]))
        hp = os.path.join(wd, "in_H.pdb")
        r = runner.run(["--ff=AMBER", f"--pdb-output={hp}", path, os.path.join(wd, "pre.pqr")])
        if not r["ok"]:
            raise core.MachineryError(f"could not prepare hydrogen-complete input: {r['exc_type']} {r['exc']}")
        os.unlink(os.path.join(wd, "pre.pqr"))
        return hp
    open(path, "w").write(gen.pdb_text(chains))
    return path


def events_for_spec(events, clean=False):
    """stage events -> the event list of PipelineTrace (exit / raise only; repeated calls folded)"""
    out, seen = [], {}
    pending = []
    for e in events:
        if e.get("e") != "stage":
            continue
        st = e["stage"]
        if e["kind"] == "enter":
            # whatever changed since the previous event happened in inline code after the previous stage
            if (e["wrote"] or e["pqr_differs"]) and out:
                out[-1]["wrote"] = sorted(set(out[-1]["wrote"]) | set(e["wrote"]))
                out[-1]["pqr"] = out[-1]["pqr"] or e["pqr_differs"]
            continue
        n = seen.get(st, 0)
        if st == "Debump" and n >= 1:
            st = "Debump2"
        elif st == "LoadFF" and n >= 1:
            st = "NameScheme"          # the naming-scheme force field is loaded inside the NameScheme step
        elif st == "RenderLines" and "PrintPqr" in seen:
            st = "PrintPdb"
        elif st == "RenderLines" and clean:
            st = "CleanLines"
        seen[e["stage"]] = n + 1
        seen[st] = seen.get(st, 0) + (1 if st != e["stage"] else 0)
        ev = {"stage": st, "kind": e["kind"], "wrote": sorted(e["wrote"]), "pqr": bool(e["pqr_differs"])}
        if out and out[-1]["stage"] == st and out[-1]["kind"] == "exit" and e["kind"] == "exit":
            out[-1]["wrote"] = sorted(set(out[-1]["wrote"]) | set(ev["wrote"]))
            out[-1]["pqr"] = out[-1]["pqr"] or ev["pqr"]
        else:
            out.append(ev)
    return out


EXC = {"ValueError": ValueError, "KeyError": KeyError, "OSError": OSError, "RuntimeError": RuntimeError}


def _work(job):
    """job: dict(id, klass, args, fs0, fault or None, input kind ...) -> trace dict"""
    from .. import runner

    wd = os.path.join(core.VERIF, ".work", f"c12-{os.getpid()}")
    shutil.rmtree(wd, ignore_errors=True)
    os.makedirs(wd)
    out = os.path.join(wd, "o.pqr")
    if job["fs0"] == "old":
        with open(out, "w") as f:
            f.write("REMARK old output that must survive a failing run\n")
        os.utime(out, ns=(1_600_000_000_000_000_000, 1_600_000_000_000_000_000))
    inp = job.get("input")
    if inp is None:
        inp = write_case(wd, job["klass"], with_h=job.get("with_h", job["klass"] == "assign-only"))
    elif inp.startswith("TEXT:"):
        p = os.path.join(wd, job.get("input_name", "in.pdb"))
        with open(p, "w") as f:
            f.write(inp[5:])
        inp = p
    lig = os.path.join(DATA, "acetate.mol2")
    if job.get("first_files"):
        # a history in one process: the same command succeeded a moment ago with other contents of the same files
        for name, text in job["first_files"].items():
            with open(os.path.join(wd, name), "w") as f:
                f.write(text)
        r0 = runner.run([a.replace("@DIR@", wd).replace("@LIG@", lig) for a in job["args"]] + [inp, os.path.join(wd, "first.pqr")])
        if not r0["ok"]:
            raise core.MachineryError(f"first run of history {job['klass']} failed: {r0['exc_type']} {r0['exc']}")
    for name, text in (job.get("files") or {}).items():
        with open(os.path.join(wd, name), "w") as f:
            f.write(text)
    args = [a.replace("@DIR@", wd).replace("@LIG@", lig) for a in job["args"]] + [inp, out]
    fault = None
    if job.get("fault"):
        st, when, exc = job["fault"]
        fault = ("RenderLines" if st == "CleanLines" else st, when, EXC[exc], 2 if st == "Debump2" else 1)
        if st == "Debump2":
            fault = ("Debump", when, EXC[exc], 2)
    r = runner.run(args, groups={"stages"}, out_path=out, fault=fault)
    tr = r["tracer"]
    fs_end = tr.fs_state()
    t = {"id": job["id"], "opts": opts_record(job["args"]), "fs0": job["fs0"], "ev": events_for_spec(tr.events, clean="--clean" in job["args"]),
         "outcome": "ok" if r["ok"] else "error", "pqrfinal": fs_end != tr.fs0, "expectfile": True,
         "exc": r["exc_type"], "msg": str(r["exc"])[:200] if r["exc"] else "", "fired": bool(tr.fault_fired),
         "unobservable": tr.unobservable, "job": {k: job[k] for k in job if k not in ("input", "files")}}
    shutil.rmtree(wd, ignore_errors=True)
    return t


def natural_causes(rng):
    """inputs / option combinations that cannot produce a valid result (each must fail loudly)"""
    pep = gen.peptide(["ALA", "ASP", "HIS", "LYS", "SER"])
    good = gen.pdb_text([pep])
    custom_dat = open(os.path.join(DATA, "custom-ff.dat")).read()
    custom_names = open(os.path.join(DATA, "custom.names")).read()
    bad_dat = []
    done = False
    for ln in custom_dat.split("\n"):
        w = ln.split()
        if not done and len(w) >= 4 and w[0] == "ASP" and w[1] == "CA":
            w[2] = f"{float(w[2]) + 0.25:.4f}"
            ln = "\t".join(w)
            done = True
        bad_dat.append(ln)
    heavy_cut = [a for a in pep if a["name"] in ("N", "CA")]           # far too incomplete to repair
    nobackbone = [a for a in pep if not (a["res_index"] == 2 and a["name"] in ("CA", "C", "N"))]
    h_pep = gen.peptide(["ALA", "ASP", "HIS", "LYS", "SER"], hydrogens=True)
    h_inner_missing = [a for a in h_pep if not (a["res_index"] == 1 and a["name"] == "HA")]
    cases = [
        ("ph-out-of-range", ["--ff=AMBER", "--with-ph=15"], good, {}),
        ("neutraln-without-parse", ["--ff=AMBER", "--neutraln"], good, {}),
        ("neutralc-without-parse", ["--ff=CHARMM", "--neutralc"], good, {}),
        ("missing-names-file", ["--userff=@DIR@/u.dat", "--usernames=@DIR@/nope.names"], good, {"u.dat": custom_dat}),
        ("userff-without-names", ["--userff=@DIR@/u.dat"], good, {"u.dat": custom_dat}),
        ("missing-ligand-file", ["--ff=AMBER", "--ligand=@DIR@/nope.mol2"], good, {}),
        ("unknown-forcefield-file", ["--userff=@DIR@/nope.dat", "--usernames=@DIR@/u.names"], good, {"u.names": custom_names}),
        ("empty-input", ["--ff=AMBER"], "", {}),
        ("junk-input", ["--ff=AMBER"], "\x00\x01\x02 this is not a structure\nfoo bar baz\n", {}),
        ("hetero-only-input", ["--ff=AMBER"], gen.pdb_text([gen.water((0, 0, 0)) + gen.water((3, 3, 3), resseq=901)]), {}),
        ("malformed-coordinate", ["--ff=AMBER"], good.replace(good.split("\n")[3][30:38], "  abcdef", 1), {}),
        ("too-incomplete", ["--ff=AMBER"], gen.pdb_text([heavy_cut]), {}),
        ("nonintegral-charge-userff-inner-residue",
         ["--userff=@DIR@/bad.dat", "--usernames=@DIR@/u.names"], good, {"bad.dat": "\n".join(bad_dat), "u.names": custom_names}),
        ("nonintegral-charge-assign-only-no-hydrogens", ["--ff=AMBER", "--assign-only"], good, {}),
        ("nonintegral-charge-assign-only-inner-hydrogen-missing", ["--ff=AMBER", "--assign-only"],
         gen.pdb_text([h_inner_missing]), {}),
        ("missing-input-file", ["--ff=AMBER"], None, {}),
        ("header-only-input", ["--ff=AMBER"], "HEADER    NOTHING HERE\nREMARK   1 no coordinates\nEND\n", {}),
        ("header-only-input-clean", ["--clean"], "HEADER    NOTHING HERE\nREMARK   1 no coordinates\nEND\n", {}),
        ("header-only-input-assign-only", ["--ff=AMBER", "--assign-only"], "HEADER    NOTHING HERE\nREMARK   1 no coordinates\nEND\n", {}),
        ("water-only-input-dropped-clean", ["--clean", "--drop-water"], gen.pdb_text([gen.water((0, 0, 0)) + gen.water((3, 3, 3), resseq=901)]), {}),
        ("water-only-input-dropped-assign-only", ["--ff=AMBER", "--assign-only", "--drop-water"], gen.pdb_text([gen.water((0, 0, 0))]), {}),
        ("water-only-input-dropped", ["--ff=AMBER", "--drop-water"], gen.pdb_text([gen.water((0, 0, 0)) + gen.water((3, 3, 3), resseq=901)]), {}),
        ("hetero-only-input-noopt", ["--ff=PARSE", "--noopt", "--nodebump"], gen.pdb_text([gen.water((0, 0, 0), name="XYZ")]), {}),
        # the same command line succeeded in this process just before the files were replaced
        ("userff-replaced-by-nonintegral-charges", ["--userff=@DIR@/u.dat", "--usernames=@DIR@/u.names"], good,
         {"u.dat": "\n".join(bad_dat), "u.names": custom_names}, {"u.dat": custom_dat, "u.names": custom_names}),
        ("userff-replaced-by-junk", ["--userff=@DIR@/u.dat", "--usernames=@DIR@/u.names"], good,
         {"u.dat": "this is not a parameter file\n", "u.names": custom_names}, {"u.dat": custom_dat, "u.names": custom_names}),
        ("usernames-replaced-by-junk", ["--userff=@DIR@/u.dat", "--usernames=@DIR@/u.names"], good,
         {"u.dat": custom_dat, "u.names": "<ForceField><oops>"}, {"u.dat": custom_dat, "u.names": custom_names}),
    ]
    return cases


def run(ctx):
    rng = random.Random(ctx.seed)
    ctx.rule = ("fault cases: every (option class, enabled stage) emitted by TLC x {entry, exit} x exception class x "
                "{output absent, old file}; natural causes: generated inputs/options that cannot yield a result; success "
                "side: ALA-X-ALA for every residue type x six force fields.  Distinct = distinct (class, stage, when, "
                "exception, fs0) or cause; non-trivial = the injected fault fired / the natural cause made the run fail")
    ctx.assumptions += ["faults are Python exceptions raised at entry/exit of a stage callable; faults below Python "
                        "(I/O errors in the middle of a write) are not injected",
                        "a failure after the PQR has been written completely (--pdb-output / --apbs-input stages) may "
                        "leave the PQR in place"]
    ctx.trusted += ["vlib/tracer.py stage wrappers and digests", "vlib/checks/c12.py events_for_spec", "TLC 1.8"]
    # (M)
    r = core.run_tlc("MC_Pipeline", "MC_Pipeline.cfg", ctx.work, timeout=3000, heap="8g")
    core.need_ok(r, "MC_Pipeline")
    ctx.add_tlc(r, "all option sets x fault stages x initial output state")
    if r.invariant:
        ctx.violation({"clause": "model:" + r.invariant}, "Pipeline model violates " + r.invariant, {"tlc": r.out[-2000:]})
    # fault table from TLC: enabled stages per option class
    classes = {k: opts_record(v) for k, v in CLASSES.items()}
    cfg = os.path.join(ctx.work, "emit.cfg")

    def tla_rec(o):
        return "[" + ", ".join(f"{k} |-> {'TRUE' if v else 'FALSE'}" for k, v in o.items()) + "]"
    mod = os.path.join(ctx.work, "MC_PipelineEmit.tla")
    open(mod, "w").write(
        "---- MODULE MC_PipelineEmit ----\n(* generated at run time by vlib/checks/c12.py: emits the fault table *)\n"
        "EXTENDS Pipeline, Json\n"
        "ReplayOptionSets == {" + ", ".join(tla_rec(o) for o in classes.values()) + "}\n"
        "AllFaults == StageSet\n"
        "EmitInv == (done = {} /\\ result = \"running\" /\\ Enabled(fault, opts)) => "
        "PrintT(\"@\" \\o ToJson([opts |-> opts, fault |-> fault, fs0 |-> fs0]))\n====\n")
    open(cfg, "w").write("SPECIFICATION Spec\nCONSTANTS\n  OptionSets <- ReplayOptionSets\n  InitialFs = {\"absent\", \"old\"}\n"
                         "  FaultStages <- AllFaults\nINVARIANT EmitInv\nINVARIANT FailureLeavesOutputUntouched\n")
    try:
        r = core.run_tlc(mod, cfg, ctx.work, workers=4, timeout=1200)
    finally:
        os.unlink(mod)
    core.need_ok(r, "MC_PipelineEmit")
    ctx.add_tlc(r, "fault table emission")
    table = [json.loads(v[1:]) for v in r.printed if isinstance(v, str) and v.startswith("@")]
    if len(table) < 100:
        raise core.MachineryError(f"fault table has only {len(table)} rows")
    name_of = {json.dumps(o, sort_keys=True): k for k, o in classes.items()}
    jobs = []
    excs = ["ValueError", "KeyError", "OSError"]
    for row in table:
        klass = name_of[json.dumps(row["opts"], sort_keys=True)]
        whens = ["entry", "exit"]
        for when in whens:
            if row["fault"] == "PrintPqr" and when == "exit":
                continue        # the file has been written completely by then
            ex = excs if not ctx.quick else [excs[(len(jobs) + ctx.seed) % 3]]
            if ctx.quick and row["fs0"] == "absent" and when == "exit":
                continue
            for exc in ex:
                jobs.append({"id": len(jobs) + 1, "klass": klass, "args": ["--ff=AMBER"] + CLASSES[klass],
                             "fs0": row["fs0"], "fault": [row["fault"], when, exc], "kind": "fault"})
    for name, args, text, files, *first in natural_causes(rng):
        for fs0 in ("absent", "old"):
            jobs.append({"id": len(jobs) + 1, "klass": name, "args": args, "fs0": fs0, "fault": None, "kind": "natural",
                         "input": ("TEXT:" + text) if text is not None else os.path.join(core.VERIF, ".work", "does-not-exist.pdb"),
                         "files": files, "first_files": first[0] if first else None})
    # success side
    ffs = gen.FORCE_FIELDS
    for x in gen.AMINO:
        for ff in (ffs if not ctx.quick else [ffs[(gen.AMINO.index(x) + ctx.seed) % 6], "PARSE"]):
            text = gen.pdb_text([gen.peptide(["ALA", x, "ALA"])])
            jobs.append({"id": len(jobs) + 1, "klass": f"ALA-{x}-ALA", "args": [f"--ff={ff}"], "fs0": "absent", "fault": None,
                         "kind": "success", "input": "TEXT:" + text})
    # ... at the chain ends under every force field, nucleic-acid strands under the force fields that define them, waters
    for x in gen.AMINO:
        for pos in (0, 2):
            for ff in ffs:
                seq = ["ALA", "ALA", "ALA"]
                seq[pos] = x
                jobs.append({"id": len(jobs) + 1, "klass": "-".join(seq), "args": [f"--ff={ff}"], "fs0": "absent", "fault": None, "kind": "success",
                             "input": "TEXT:" + gen.pdb_text([gen.peptide(seq) + gen.water((6, 14, 4), resseq=101)])})
    for kind, s_, okff in (("D", "ACGT", ["AMBER", "CHARMM", "TYL06"]), ("R", "ACGU", ["AMBER", "CHARMM", "TYL06", "PARSE"]), ("D", "GGC", ["AMBER"])):
        for ff in okff:
            jobs.append({"id": len(jobs) + 1, "klass": f"strand {kind} {s_}", "args": [f"--ff={ff}"], "fs0": "absent", "fault": None, "kind": "success",
                         "input": "TEXT:" + gen.pdb_text([gen.nucleic(s_, kind), gen.water((20, 14, 4), resseq=101)])})
    # complete peptides titrated with PROPKA at acid, neutral and basic pH under every force field: states the force field cannot
    # name are left alone (with a warning), so the run still succeeds
    for ff in ffs:
        for ph in ("2", "7", "12"):
            for seq in (["ALA", "GLU", "ASP", "LYS", "TYR", "HIS", "CYS", "ALA"], ["GLU", "ALA", "PHE", "ARG", "LYS"]):
                jobs.append({"id": len(jobs) + 1, "klass": f"{'-'.join(seq)} titrated at pH {ph}", "args": [f"--ff={ff}", "--titration-state-method=propka", f"--with-ph={ph}"],
                             "fs0": "absent", "fault": None, "kind": "success", "input": "TEXT:" + gen.pdb_text([gen.peptide(seq) + gen.water((6, 14, 4), resseq=101)])})
    # every nucleotide type at the 5' and at the 3' end of a strand
    for kind, s_, okff in (("D", "TACG", ["AMBER", "CHARMM", "TYL06"]), ("D", "CGAT", ["AMBER", "CHARMM", "TYL06"]), ("D", "GCTA", ["CHARMM"]),
                           ("R", "UACG", ["AMBER", "CHARMM", "TYL06", "PARSE"]), ("R", "CGAU", ["CHARMM", "PARSE"]), ("R", "GCUA", ["AMBER"])):
        for ff in okff:
            jobs.append({"id": len(jobs) + 1, "klass": f"strand {kind} {s_} (each base at an end)", "args": [f"--ff={ff}"], "fs0": "absent", "fault": None,
                         "kind": "success", "input": "TEXT:" + gen.pdb_text([gen.nucleic(s_, kind)])})
    # the same strands as deposited today: phosphate oxygens named OP1 / OP2 (wwPDB remediation), and with the solvent listed
    # under the strand's own chain identifier
    v3 = lambda at: [dict(a, name={"O1P": "OP1", "O2P": "OP2"}.get(a["name"], a["name"])) for a in at]
    for kind, s_, okff in (("D", "ACGT", ["AMBER", "CHARMM", "TYL06"]), ("R", "ACGU", ["AMBER", "CHARMM", "TYL06", "PARSE"]), ("D", "AT", ["CHARMM"])):
        for ff in okff:
            jobs.append({"id": len(jobs) + 1, "klass": f"strand {kind} {s_} with OP1/OP2 names", "args": [f"--ff={ff}"], "fs0": "absent", "fault": None,
                         "kind": "success", "input": "TEXT:" + gen.pdb_text([v3(gen.nucleic(s_, kind)), gen.water((20, 14, 4), resseq=101)])})
            jobs.append({"id": len(jobs) + 1, "klass": f"strand {kind} {s_} followed by waters of the same chain", "args": [f"--ff={ff}"], "fs0": "absent",
                         "fault": None, "kind": "success",
                         "input": "TEXT:" + gen.pdb_text([gen.nucleic(s_, kind) + gen.water((20, 14, 4), chain="N", resseq=101) +
                                                          gen.water((-9, 10, 8), chain="N", resseq=102)])})
    # complete structures written under the alternative atom spellings the topology declares
    for style in (0, 1):
        for ff in ffs:
            for opts in ([], ["--nodebump", "--noopt"]):
                jobs.append({"id": len(jobs) + 1, "klass": f"alternative terminal-oxygen spelling {style}", "args": [f"--ff={ff}"] + opts, "fs0": "absent",
                             "fault": None, "kind": "success",
                             "input": "TEXT:" + gen.pdb_text([gen.respell(gen.peptide(["ALA", "SER", "LYS", "GLY", "ASP"]), style, only=("O", "OXT"))])})
    tri = [a for n in range(3) for a in gen.transform(gen.peptide(["LYS", "ALA", "SER"], chain="A", start=1 + 3 * n), t=(0, 0, 30.0 * n))]
    for ff in ffs:
        for label, text in (("homo-trimer under one chain id", gen.pdb_text([tri])),
                            ("homo-trimer without chain ids or TER", gen.pdb_text([[dict(a, chain="") for a in tri]], ter=False))):
            jobs.append({"id": len(jobs) + 1, "klass": label, "args": [f"--ff={ff}"], "fs0": "absent", "fault": None, "kind": "success", "input": "TEXT:" + text})
    for klass in CLASSES:
        jobs.append({"id": len(jobs) + 1, "klass": klass, "args": ["--ff=AMBER"] + CLASSES[klass], "fs0": "old",
                     "fault": None, "kind": "success"})
    traces = core.pmap(_work, jobs, chunksize=4)
    ctx.evaluations += len(traces)
    unobs = sorted(set(u for t in traces for u in t["unobservable"]))
    if unobs:
        ctx.extra["unobservable"] = unobs
    tf = core.write_json(os.path.join(ctx.work, "tr.json"),
                         [{k: t[k] for k in ("id", "opts", "fs0", "ev", "outcome", "pqrfinal", "expectfile")} for t in traces])
    cfg2 = os.path.join(ctx.work, "trace.cfg")
    open(cfg2, "w").write("SPECIFICATION TSpec\nCONSTANTS\n  OptionSets = {}\n  InitialFs = {}\n  FaultStages = {}\nINVARIANT AtEnd\n")
    r = core.run_tlc("PipelineTrace", cfg2, ctx.work, workers=1, env={"TRACE_FILE": tf}, timeout=3000, heap="8g")
    core.need_ok(r, "PipelineTrace")
    ctx.add_tlc(r, "trace validation")
    verdicts, ended = {}, set()
    for v in r.printed:
        if isinstance(v, list) and v:
            if v[0] == "END":
                ended.add(v[1])
            elif v[0] in ("ORDER", "W", "EARLY", "DIRTY", "QUIET", "MOVE", "NOFILE"):
                verdicts.setdefault(v[1], []).append(v)
    if len(ended) != len(traces):
        raise core.MachineryError(f"{len(ended)} of {len(traces)} traces consumed; {r.unparsed[:2]} {r.out[-600:]}")
    ctx.traces += len(traces)
    PROP = {"heavy": "C04", "coords": "C09", "order": "C09", "numbers": "C09", "names": "C09", "pqr": "C12"}
    for t in traces:
        j = t["job"]
        what = f"{j['kind']} {j['klass']} args={j['args']} fs0={t['fs0']} fault={j.get('fault')} -> {t['outcome']} {t['exc']} {t['msg'][:80]}"
        for v in verdicts.get(t["id"], []):
            kind = v[0]
            if kind == "ORDER":
                ctx.drift.append({"what": what, "order": v[3]})
            elif kind == "W":
                if PROP[v[4]] == "C12":
                    ctx.violation({"clause": "WriteOnlyByPrintPqr", "stage": v[3]}, what + f": stage {v[3]} changed the output path",
                                  {"trace": t})
                else:
                    ctx.drift.append({"what": what, "stage_wrote": [v[3], v[4]], "judged_by": PROP[v[4]]})
            elif kind in ("EARLY", "DIRTY"):
                ctx.violation({"clause": "FailureLeavesOutputUntouched" if kind == "DIRTY" else "WriteOnlyWhenComplete",
                               "stage": v[3], "kind": j["kind"]}, what + f": output path changed ({kind} at {v[3]})", {"trace": t})
            elif kind == "QUIET":
                ctx.violation({"clause": "ErrorIsLoud", "stage": (j.get("fault") or ["?"])[0]},
                              what + ": a stage raised but run_pdb2pqr returned normally", {"trace": t})
            elif kind == "NOFILE":
                ctx.violation({"clause": "SuccessWritesFile", "klass": j["klass"]}, what + ": success but output path unchanged", {"trace": t})
        if j["kind"] == "fault":
            if t["fired"]:
                ctx.nontrivial.add((j["klass"], tuple(j["fault"]), t["fs0"]))
                if t["outcome"] == "ok":
                    ctx.violation({"clause": "ErrorIsLoud", "stage": j["fault"][0]}, what + ": injected fault was swallowed", {"trace": t})
        elif j["kind"] == "natural":
            if t["outcome"] == "ok":
                ctx.violation({"clause": "UnusableInputFails", "cause": j["klass"]}, what + ": run succeeded", {"trace": t})
            else:
                ctx.nontrivial.add((j["klass"], t["fs0"]))
        elif j["kind"] == "success":
            if t["outcome"] != "ok":
                ctx.violation({"clause": "WellFormedSucceeds", "klass": j["klass"], "ff": j["args"][0], "exc": t["exc"]},
                              what + ": well-formed input failed", {"trace": t})
            else:
                ctx.nontrivial.add((j["klass"], tuple(j["args"])))
    ctx.extra["jobs"] = {k: sum(1 for t in traces if t["job"]["kind"] == k) for k in ("fault", "natural", "success")}
    ctx.extra["faults_fired"] = sum(1 for t in traces if t["fired"])
    fl = [t for t in traces if t["fired"]]
    if fl:
        t = fl[len(fl) // 2]
        ctx.sample({"job": t["job"], "outcome": t["outcome"], "exc": t["exc"], "events": t["ev"][-4:], "pqrfinal": t["pqrfinal"]})
    nat = [t for t in traces if t["job"]["kind"] == "natural"]
    if nat:
        ctx.sample({"job": nat[0]["job"], "outcome": nat[0]["outcome"], "exc": nat[0]["exc"], "msg": nat[0]["msg"]})
