"""C09 - formatting and naming options never change the computed model.

(M) TLC: MC_Pipeline2 (self-composition of the stage machine over all 128 computing option sets x 64 subsets of the
    formatting options: NonInterference, NamesDifferOnlyByScheme) and the ordering invariants of MC_Pipeline.
(R) TLC emits the (base, variant) option pairs of the replayed classes; both runs are executed with the stage
    wrappers on the same generated input.
(T) TLC (Pipeline2Trace) compares, stage by stage, the digests of coordinates / charges+radii of the two runs and
    the atom records of the two PQR files; plus the --drop-water relation and the neutral-terminus relation.
"""
import json
import os
import random
import shutil

from .. import core, gen

LEVEL = "model_checking"
DATA = os.path.join(core.REPO, "tests", "data")
FORMAT_ARGS = {"whitespace": "--whitespace", "keepChain": "--keep-chain", "includeHeader": "--include-header",
               "pdbOut": "--pdb-output=@DIR@/o_H.pdb", "apbsIn": "--apbs-input=@DIR@/o.in", "ffout": "--ffout=@FFOUT@"}
BASES = {"default": [], "nodebump-noopt": ["--nodebump", "--noopt"], "propka": ["--titration-state-method=propka", "--with-ph=5"],
         "dropwater": ["--drop-water"], "noopt": ["--noopt"]}
COMPUTE = ["SetupMolecule", "SetTermini", "UpdateBonds", "Repair", "UpdateSS", "Debump", "ApplyPka", "AddH", "Debump2",
           "OptInit", "Optimize", "Cleanup", "SetStates", "ApplyFF", "ChargeCheck", "NameScheme", "Header", "RenderLines",
           "PrintPqr", "PrintPdb", "DumpApbs"]


def inputs():
    a = gen.peptide(["PRO", "ASP", "HIS", "LYS", "CYS"], chain="A")
    b = gen.transform(gen.peptide(["ALA", "GLU", "ARG", "TYR"], chain="B", start=11), t=(0, 0, 30))
    w = gen.water((6, 14, 4), chain="A", resseq=101) + gen.water((-8, 9, 22), chain="B", resseq=102)
    two = gen.pdb_text([a + w[:1], b + w[1:]])
    a2 = gen.peptide(["ALA", "ASP", "HIS", "LYS", "SER"], chain="A")
    neutral = gen.pdb_text([a2, b])
    # a free amino acid as a chain of its own: N- and C-terminal at once
    free = gen.transform(gen.peptide(["GLY"], chain="C", start=21), t=(0, 30, 0))
    neutral_free = gen.pdb_text([a2, b, free])
    # titratable residues at both ends of chain A: at low pH their side chains are protonated whatever the termini are
    a3 = gen.peptide(["ASP", "ALA", "HIS", "LYS", "GLU"], chain="A")
    neutral_titr = gen.pdb_text([a3, b])
    # chain identifiers that pdb2pqr re-assigns: two peptides under one chain id (told apart by OXT), a lettered chain,
    # waters without chain id between and after them
    p1 = gen.peptide(["LYS", "ALA", "SER"], chain="A", start=1)
    p2 = gen.transform(gen.peptide(["GLY", "ASP"], chain="A", start=4), t=(0, 0, 30))
    p3 = gen.transform(gen.peptide(["ARG", "ALA", "TYR"], chain="B", start=11), t=(0, 30, 0))
    w1 = gen.water((6, 14, 4), chain="", resseq=201) + gen.water((6, 44, 4), chain="B", resseq=202) + gen.water((6, 14, 34), chain="", resseq=203)
    reassigned = gen.pdb_text([p1 + p2, w1[:1], p3, w1[1:]])
    # coordinates that fill their columns (x, y, z <= -100 or >= 1000)
    wide = gen.pdb_text([gen.transform(a + w[:1], t=(-95.0, -150.0, -120.0)), gen.transform(b + w[1:], t=(1005.0, 995.0, 1100.0))])
    # atoms of each residue in an unusual order (side chain first, backbone last), as some programs write them
    def backbone_last(atoms):
        out, cur, key = [], [], None
        for x in atoms + [None]:
            k = None if x is None else (x["chain"], x["resseq"])
            if k != key and cur:
                out += [y for y in cur if y["name"] not in ("N", "CA", "C", "O")] + [y for y in cur if y["name"] in ("C", "O", "N", "CA")][::-1]
                cur = []
            key = k
            if x is not None:
                cur.append(x)
        return out
    unordered = gen.pdb_text([backbone_last(a) + w[:1], backbone_last(b) + w[1:]])
    # the left-most heavy atom at x = -999.950: atoms added next to it fall below -1000 (a field that overflows)
    xmin = min(x["xyz"][0] for x in a + b + w)
    edge = gen.pdb_text([gen.transform(a + w[:1], t=(-999.95 - xmin, 0, 0)), gen.transform(b + w[1:], t=(-999.95 - xmin, 0, 0))])
    return {"two-chains-pro": two, "neutral": neutral, "neutral-free": neutral_free, "neutral-titr": neutral_titr, "reassigned": reassigned, "wide": wide,
            "unordered": unordered, "edge": edge}


def parse_pqr(text, ws=None):
    """independent reader of pdb2pqr's output: fixed columns for the default layout, tokens from the right for the
    whitespace layout (ws=None: decide per line by trying the columns first)"""
    atoms = []
    for ln in text.split("\n"):
        if not ln.startswith(("ATOM", "HETATM")):
            continue
        typ = "HETATM" if ln.startswith("HETATM") else "ATOM"
        cols_ok = False
        if not ws and len(ln) >= 69:
            try:
                rec = {"type": typ, "name": ln[12:16].strip(), "resname": ln[16:20].strip(), "chain": ln[21:22].strip(),
                       "resseq": ln[22:26].strip(), "x": ln[30:38].strip(), "y": ln[38:46].strip(), "z": ln[46:54].strip(),
                       "q": ln[54:62].strip(), "r": ln[62:69].strip()}
                [float(rec[k]) for k in ("x", "y", "z", "q", "r")]
                int(rec["resseq"])
                cols_ok = ws is False or ln[11:12] == " "
            except ValueError:
                cols_ok = False
        if cols_ok:
            atoms.append(rec)
            continue
        w = ln.split()
        if w[0] not in ("ATOM", "HETATM"):
            w = [typ, w[0][len(typ):]] + w[1:]
        x, y, z, q, r = w[-5:]
        mid = w[4:-5]          # [chain] resseq
        chain = mid[0] if len(mid) == 2 else ""
        atoms.append({"type": typ, "name": w[2], "resname": w[3], "chain": chain, "resseq": mid[-1] if mid else "",
                      "x": x, "y": y, "z": z, "q": q, "r": r})
    return atoms


def _work(job):
    from .. import runner
    from .c12 import events_for_spec

    wd = os.path.join(core.VERIF, ".work", f"c09-{os.getpid()}")
    res = []
    for k in (1, 2):
        shutil.rmtree(wd, ignore_errors=True)
        os.makedirs(wd)
        inp = os.path.join(wd, "in.pdb")
        open(inp, "w").write(job[f"input{k}"])
        out = os.path.join(wd, "o.pqr")
        args = [a.replace("@DIR@", wd) for a in job[f"args{k}"]] + [inp, out]
        r = runner.run(args, groups={"stages"}, out_path=out)
        dig, last = {}, None
        tr = r["tracer"]
        # digests after each stage: replay the recorded events with a running digest snapshot
        snap = {}
        for e in tr.events:
            if e.get("e") == "stage" and e["kind"] == "exit":
                pass
        res.append({"ok": r["ok"], "exc": r["exc_type"], "msg": str(r["exc"])[:160] if r["exc"] else "",
                    "dig": getattr(tr, "stage_digests", {}), "atoms": parse_pqr(open(out).read(), ws="--whitespace" in job[f"args{k}"]) if r["ok"] else [],
                    "nterm": 0})
    shutil.rmtree(wd, ignore_errors=True)
    return res


def run(ctx):
    rng = random.Random(ctx.seed)
    ctx.rule = ("pairs (base options, base + subset of formatting options) emitted by TLC for the replayed base classes x "
                "force field; distinct = distinct (input, base, force field, toggled subset, ffout scheme); non-trivial = "
                "at least one formatting option toggled and both runs succeeded; plus drop-water and neutral-terminus pairs")
    ctx.assumptions += ["generated inputs (two chains incl. N-terminal PRO, titratable residues, waters) and cterm_hid.pdb",
                        "number columns compared as the text written to the PQR file"]
    ctx.trusted += ["vlib/tracer.py stage wrappers/digests", "vlib/checks/c09.py parse_pqr", "TLC 1.8"]
    # (M)
    r = core.run_tlc("MC_Pipeline2", "MC_Pipeline2.cfg", ctx.work, timeout=3000)
    core.need_ok(r, "MC_Pipeline2")
    ctx.add_tlc(r, "self-composition over all computing option sets x formatting subsets")
    if r.invariant:
        ctx.violation({"clause": "model:" + r.invariant}, "Pipeline2 violates " + r.invariant, {"tlc": r.out[-2000:]})
    # (R) pairs from TLC
    from .c12 import opts_record
    mod = os.path.join(ctx.work, "MC_Pipeline2Emit.tla")

    def full(args):
        o = opts_record(args)
        o.update(whitespace=False, keepChain=False, includeHeader=False)
        return o

    def tla_rec(o):
        return "[" + ", ".join(f"{k} |-> {'TRUE' if v else 'FALSE'}" for k, v in o.items()) + "]"
    bases = {k: full(v) for k, v in BASES.items()}
    open(mod, "w").write(
        "---- MODULE MC_Pipeline2Emit ----\n(* generated at run time by vlib/checks/c09.py *)\nEXTENDS Pipeline2, Json\n"
        "ReplayBases == {" + ", ".join(tla_rec(o) for o in bases.values()) + "}\n"
        "AllFormatSubsets == SUBSET Formatting\n"
        "EmitInv == (done1 = {} /\\ done2 = {}) => PrintT(\"@\" \\o ToJson([o1 |-> opts1, o2 |-> opts2]))\n====\n")
    cfg = os.path.join(ctx.work, "emit.cfg")
    open(cfg, "w").write("SPECIFICATION Spec\nCONSTANTS\n  BaseOptionSets <- ReplayBases\n  FormatSubsets <- AllFormatSubsets\n"
                         "INVARIANT EmitInv\nINVARIANT NonInterference\n")
    try:
        r = core.run_tlc(mod, cfg, ctx.work, workers=4, timeout=1200)
    finally:
        os.unlink(mod)
    core.need_ok(r, "MC_Pipeline2Emit")
    ctx.add_tlc(r, "pair emission")
    pairs = [json.loads(v[1:]) for v in r.printed if isinstance(v, str) and v.startswith("@")]
    if len(pairs) != len(BASES) * 64:
        raise core.MachineryError(f"emitted {len(pairs)} pairs")
    name_of = {json.dumps(o, sort_keys=True): k for k, o in bases.items()}
    texts = inputs()
    cterm = open(os.path.join(DATA, "cterm_hid.pdb")).read()
    jobs = []
    rng.shuffle(pairs)
    per_base = {}
    for pr in pairs:
        base = name_of[json.dumps(pr["o1"], sort_keys=True)]
        toggled = sorted(k for k in FORMAT_ARGS if pr["o2"][k] != pr["o1"][k])
        if not toggled:
            continue
        n = per_base.get(base, 0)
        if ctx.quick and n >= (30 if base == "default" else 8):
            continue
        per_base[base] = n + 1
        ff = gen.FORCE_FIELDS[(n + ctx.seed) % 6]
        ffout = rng.choice(gen.FORCE_FIELDS)
        inp = "two-chains-pro" if (n % 4 or base == "propka") else "cterm_hid"
        text = texts.get(inp, cterm)
        a1 = [f"--ff={ff}"] + BASES[base]
        a2 = a1 + [FORMAT_ARGS[k].replace("@FFOUT@", ffout) for k in toggled]
        jobs.append({"kind": "format", "input1": text, "input2": text, "args1": a1, "args2": a2, "toggled": toggled,
                     "what": f"{inp} {base} ff={ff} toggled={toggled} ffout={ffout if 'ffout' in toggled else None}"})
        if not ctx.quick:
            # thorough: the same pair on the other inputs as well
            for other in ("two-chains-pro", "cterm_hid", "reassigned"):
                if other != inp and not (other == "cterm_hid" and base == "propka"):
                    jobs.append({"kind": "format", "input1": texts.get(other, cterm), "input2": texts.get(other, cterm), "args1": a1, "args2": a2,
                                 "toggled": toggled, "what": f"{other} {base} ff={ff} toggled={toggled} ffout={ffout if 'ffout' in toggled else None}"})
    # chain identifiers re-assigned by pdb2pqr (hidden chain end, waters without chain id): --keep-chain must not reorder
    for base in ("default", "nodebump-noopt"):
        for toggled in (["keepChain"], ["keepChain", "whitespace"], ["keepChain", "ffout"]):
            ff = gen.FORCE_FIELDS[(len(jobs) + ctx.seed) % 6]
            a1 = [f"--ff={ff}"] + BASES[base]
            a2 = a1 + [FORMAT_ARGS[k].replace("@FFOUT@", "AMBER") for k in toggled]
            jobs.append({"kind": "format", "input1": texts["reassigned"], "input2": texts["reassigned"], "args1": a1, "args2": a2,
                         "toggled": toggled, "what": f"reassigned-chains {base} ff={ff} toggled={toggled}"})
    # coordinates that fill their columns, under every subset of the layout options
    for toggled in (["whitespace"], ["whitespace", "keepChain"], ["keepChain"], ["whitespace", "ffout"]):
        a1 = ["--ff=AMBER", "--noopt"]
        a2 = a1 + [FORMAT_ARGS[k].replace("@FFOUT@", "CHARMM") for k in toggled]
        jobs.append({"kind": "format", "input1": texts["wide"], "input2": texts["wide"], "args1": a1, "args2": a2, "toggled": toggled,
                     "what": f"wide-coordinates toggled={toggled}"})
    for inp_, toggles in (("unordered", (["pdbOut"], ["pdbOut", "whitespace"], ["apbsIn"], ["keepChain"])),
                          ("edge", (["whitespace"], ["whitespace", "keepChain"], ["pdbOut"]))):
        for toggled in toggles:
            a1 = ["--ff=AMBER"]
            a2 = a1 + [FORMAT_ARGS[k].replace("@FFOUT@", "CHARMM") for k in toggled]
            jobs.append({"kind": "format", "input1": texts[inp_], "input2": texts[inp_], "args1": a1, "args2": a2, "toggled": toggled,
                         "what": f"{inp_} toggled={toggled}"})
    # titration at pH values where the force fields differ in the states they can name, with another naming scheme
    for ff, ffout, ph in (("PARSE", "AMBER", 12), ("PARSE", "CHARMM", 12), ("AMBER", "PARSE", 12), ("PARSE", "AMBER", 1), ("CHARMM", "PARSE", 13))[:(3 if ctx.quick else 5)]:
        a1 = [f"--ff={ff}", "--titration-state-method=propka", f"--with-ph={ph}"]
        jobs.append({"kind": "format", "input1": texts["two-chains-pro"], "input2": texts["two-chains-pro"], "args1": a1, "args2": a1 + [f"--ffout={ffout}"],
                     "toggled": ["ffout"], "what": f"two-chains-pro propka pH {ph} ff={ff} toggled=['ffout'] ffout={ffout}"})
    lig = os.path.join(core.REPO, "tests", "data", "acetate.mol2")
    ligtext = gen.pdb_text([gen.peptide(["ALA", "SER", "LYS"], chain="A"), gen.ligand_hetatm(lig, move_to=(-14, -12, 6)),
                            gen.water((6, 14, 4), chain="A", resseq=101)])
    jobs.append({"kind": "format", "input1": ligtext, "input2": ligtext, "args1": ["--ff=AMBER", f"--ligand={lig}"],
                 "args2": ["--ff=AMBER", f"--ligand={lig}", "--keep-chain"], "toggled": ["keepChain"], "what": "ligand complex toggled=['keepChain']"})
    # neutral termini with ffout (PARSE): names only in the PARSE scheme must still be written
    for ffout in (["AMBER", "CHARMM"] if ctx.quick else gen.FORCE_FIELDS):
        for neut in (["--neutralc"], ["--neutraln", "--neutralc"]):
            a1 = ["--ff=PARSE"] + neut
            jobs.append({"kind": "format", "input1": texts["neutral"], "input2": texts["neutral"], "args1": a1,
                         "args2": a1 + [f"--ffout={ffout}"], "toggled": ["ffout"], "what": f"neutral PARSE {neut} ffout={ffout}"})
    # drop-water relation (also with water serial numbers restarting at 1, i.e. colliding with protein serials)
    two = texts["two-chains-pro"]
    lines = two.split("\n")
    renum, k = [], 0
    for ln in lines:
        if ln.startswith("HETATM") and ln[17:20] == "HOH":
            k += 1
            ln = ln[:6] + f"{k:5d}" + ln[11:]
        renum.append(ln)
    for label, text in (("serials-unique", two), ("water-serials-restart", "\n".join(renum))):
        nowat = "\n".join(ln for ln in text.split("\n") if not (ln.startswith("HETATM") and ln[17:20] == "HOH"))
        for ff in (["AMBER"] if ctx.quick else ["AMBER", "PARSE", "CHARMM"]):
            jobs.append({"kind": "dropwater", "input1": nowat, "input2": text, "args1": [f"--ff={ff}"],
                         "args2": [f"--ff={ff}", "--drop-water"], "toggled": ["dropWater"], "what": f"drop-water {label} ff={ff}"})
    # neutral termini relation
    for neut, shift in ((["--neutraln"], -2), (["--neutralc"], 2), (["--neutraln", "--neutralc"], 0)):
        jobs.append({"kind": "neutral", "input1": texts["neutral"], "input2": texts["neutral"], "args1": ["--ff=PARSE"],
                     "args2": ["--ff=PARSE"] + neut, "toggled": neut, "shift": shift, "what": f"neutral termini {neut}"})
    # with a one-residue chain (both termini on one residue): one more terminus of each kind
    # ... with the side chains of the terminal residues titrated (PROPKA at pH 2): neutralising a terminus leaves them as they are
    tit = ["--ff=PARSE", "--titration-state-method=propka", "--with-ph=2"]
    for neut, shift in ((["--neutraln"], -2), (["--neutralc"], 2), (["--neutraln", "--neutralc"], 0)):
        jobs.append({"kind": "neutral", "input1": texts["neutral-titr"], "input2": texts["neutral-titr"], "args1": tit,
                     "args2": tit + neut, "toggled": neut, "shift": shift, "what": f"neutral termini, terminal side chains titrated {neut}"})
    for neut, shift in ((["--neutraln"], -3), (["--neutralc"], 3), (["--neutraln", "--neutralc"], 0)):
        jobs.append({"kind": "neutral", "input1": texts["neutral-free"], "input2": texts["neutral-free"], "args1": ["--ff=PARSE"],
                     "args2": ["--ff=PARSE"] + neut, "toggled": neut, "shift": shift, "what": f"neutral termini, free amino acid {neut}"})
    res = core.pmap(_work, jobs, chunksize=1)
    traces = []
    for j, (r1, r2) in zip(jobs, res):
        ctx.evaluations += 1
        if not (r1["ok"] and r2["ok"]):
            ctx.violation({"clause": "BothRunsSucceed", "toggled": "+".join(j["toggled"]), "exc": r1["exc"] or r2["exc"]},
                          f"{j['what']}: run1 {r1['exc']} {r1['msg']} / run2 {r2['exc']} {r2['msg']}", {"job": j["what"]})
            continue
        ctx.nontrivial.add(j["what"])
        stages = [s for s in COMPUTE if s in r1["dig"] and s in r2["dig"]]
        if j["kind"] != "format":
            stages = []
        t = {"id": len(traces) + 1, "kind": j["kind"], "stages": stages, "dig1": r1["dig"], "dig2": r2["dig"],
             "atoms1": r1["atoms"], "atoms2": r2["atoms"], "namesmaydiffer": "ffout" in j["toggled"],
             "chainmaydiffer": "keepChain" in j["toggled"], "shift": 0, "q1": 0, "q2": 0, "inner1": [], "inner2": [],
             "what": j["what"]}
        if j["kind"] == "neutral":
            def q4(atoms):
                return sum(int(round(float(a["q"]) * 10000)) for a in atoms)
            term = {"1", "5", "11", "14", "21"}       # chain-terminal residue numbers of the generated inputs
            # termini that the base run parameterises (their terminal atoms are written): those are the ones the options can
            # neutralise; a one-residue chain is named as an N-terminal residue and its OXT stays unassigned
            have = set((a["resseq"], a["name"]) for a in r1["atoms"])
            n_n = sum(1 for rs in ("1", "11", "21") if (rs, "H2") in have or (rs, "H3") in have)
            n_c = sum(1 for rs in ("5", "14", "21") if (rs, "OXT") in have)
            shift = (-n_n if "--neutraln" in j["toggled"] else 0) + (n_c if "--neutralc" in j["toggled"] else 0)
            if "free" not in j["what"] and shift != j["shift"]:
                raise core.MachineryError(f"neutral relation: computed shift {shift}, expected {j['shift']} for {j['what']}")
            t.update(shift=shift * 10000, q1=q4(r1["atoms"]), q2=q4(r2["atoms"]),
                     inner1=[a for a in r1["atoms"] if a["resseq"] not in term],
                     inner2=[a for a in r2["atoms"] if a["resseq"] not in term])
        traces.append(t)
    tf = core.write_json(os.path.join(ctx.work, "tr.json"), [{k: v for k, v in t.items() if k != "what"} for t in traces])
    cfg = os.path.join(ctx.work, "trace.cfg")
    open(cfg, "w").write("SPECIFICATION TSpec\nINVARIANT AtEnd\n")
    r = core.run_tlc("Pipeline2Trace", cfg, ctx.work, workers=1, env={"TRACE_FILE": tf}, timeout=3000, heap="8g")
    core.need_ok(r, "Pipeline2Trace")
    ctx.add_tlc(r, "pair validation")
    ended = set(v[1] for v in r.printed if isinstance(v, list) and v and v[0] == "END")
    if len(ended) != len(traces):
        raise core.MachineryError(f"{len(ended)} of {len(traces)} pair traces consumed; {r.unparsed[:2]} {r.out[-600:]}")
    ctx.traces += len(traces)
    by = {t["id"]: t for t in traces}
    for v in r.printed:
        if isinstance(v, list) and v and v[0] in ("NI", "NUM", "ORDER", "COUNT", "NAMES", "CHAIN", "SHIFT", "INNER"):
            t = by[v[1]]
            key = {"clause": v[0], "kind": t["kind"], "detail": v[2] if v[0] == "NI" else None,
                   "part": v[3] if v[0] == "NI" else None}
            ctx.violation(key, f"{t['what']}: {v}", {"what": t["what"], "verdict": v,
                                                     "atoms1": t["atoms1"][:40], "atoms2": t["atoms2"][:40]})
    if traces:
        t = traces[0]
        ctx.sample({"pair": t["what"], "stages_compared": t["stages"], "first_atoms": [t["atoms1"][0], t["atoms2"][0]]})
