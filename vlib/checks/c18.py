"""C18 - DX to cube conversion preserves the grid data.

(M) TLC explores Dx2Cube.tla for every grid shape <= MaxN^3, DX row length, atom count, trailer.
(R) every shape is written as real DX/PQR files, converted by the real read_pqr/read_dx/write_cube
    (many conversions per process, so cross-call state shows), the cube is parsed by an independent reader;
(T) the parsed cubes are validated by TLC (Dx2CubeTrace): equality with the spec's cube and the clauses.
"""
import json
import math
import os
import random

from .. import core

LEVEL = "model_checking"
ORIGIN = (-12.345678, 0.25, 101.5)
DELTAS = {"delta1": (0.5, 0.01, 0.02), "delta2": (0.03, 0.75, 0.04), "delta3": (0.05, 0.06, 1.25)}


def value(i):
    """distinct decimals of both signs; every fourth one has eight significant digits and lies just below a rounding boundary
    of the printed precision (x.xx00049: printed x.xx000), every eleventh one a magnitude outside the single-precision range"""
    m = 1.0 + ((i * 13) % 900) / 100.0
    e = (i * 7) % 21 - 10
    if i % 11 == 7:
        e = -46 if i % 2 else 39
    tail = "00049" if i % 4 == 3 else ""
    if i == 9:
        return float("inf")      # an overflowed grid point as C's %e writes it ("inf"): first on its line for row lengths 1 and 2
    return (-1 if i % 2 else 1) * float(f"{m:.2f}{tail}e{e:+d}")


def atom_fields(i):
    return (i, 0.25 * i - 0.5, 1.5 * i, -2.0 * i + 0.125, 0.001 * i)


def dx_text(case):
    s = case["shape"]
    n = s["nx"] * s["ny"] * s["nz"]
    out = []
    for ln in case["dx"]:
        k = ln["k"]
        if k == "comment":
            out.append("# Data from a generated grid")
        elif k == "object1":
            out.append(f"object 1 class gridpositions counts {s['nx']} {s['ny']} {s['nz']}")
        elif k == "origin":
            out.append("origin %e %e %e" % ORIGIN)
        elif k in DELTAS:
            out.append("delta %e %e %e" % DELTAS[k])
        elif k == "object2":
            out.append(f"object 2 class gridconnections counts {s['nx']} {s['ny']} {s['nz']}")
            if (s["nx"] + 2 * s["ny"] + s["nz"]) % 3 == 0:
                # attribute records may follow any object, not only the last one
                out.append('attribute "element type" string "cubes"')
                out.append('attribute "ref" string "positions"')
        elif k == "object3":
            out.append(f"object 3 class array type double rank 0 items {n} data follows")
        elif k == "data":
            out.append(" ".join("%.8e" % value(i) for i in ln["v"]) + " ")
        elif k == "attribute":
            out.append('attribute "dep" string "positions"')
        elif k == "object4":
            out.append('object "regular positions regular connections" class field')
        elif k == "component":
            out.append('component "positions" value 1')
        else:
            raise core.MachineryError(f"dx line kind {k}")
    return "\n".join(out) + "\n"


def pqr_text(natoms, style=0):
    """style: 0 plain, 1 TER/END at the end, 2 concatenated files (TER and END between the atoms, HETATM for the last),
    3 no header line at all (the first line is an atom)"""
    out = ["REMARK   1 generated"] if style != 3 else []
    for i in range(1, natoms + 1):
        ser, q, x, y, z = atom_fields(i)
        rec = "HETATM" if (style == 2 and i == natoms) else "ATOM  "
        out.append(f"{rec}{ser:5d}  C   LIG     1    {x:8.3f}{y:8.3f}{z:8.3f} {q:7.4f} {1.7:6.4f}")
        if style == 2 and i < natoms:
            out += ["TER", "END", "REMARK   1 second file"]
    if style >= 1:
        out += ["TER", "END"]
    return "\n".join(out) + "\n"


def close(a, b, rel=6e-6, ab=6e-7):
    if math.isinf(a) or math.isinf(b):
        return a == b
    return abs(a - b) <= max(ab, rel * abs(b))


def parse_cube(text, nvalues_max):
    """independent cube reader -> the spec's `out` shape"""
    lines = text.split("\n")
    ends_nl = text.endswith("\n")
    if ends_nl:
        lines = lines[:-1]
    obs = [{"k": "comment"}, {"k": "comment"}]
    t = lines[2].split()
    nat = int(t[0])
    org = all(close(float(t[1 + j]), ORIGIN[j]) for j in range(3))
    obs.append({"k": "natoms", "n": nat, "origin": org})
    for j in range(3):
        t = lines[3 + j].split()
        d = "?"
        for name, triple in DELTAS.items():
            if all(close(float(t[1 + m]), triple[m]) for m in range(3)):
                d = name
        obs.append({"k": "axis", "n": int(t[0]), "d": d})
    for j in range(nat):
        t = lines[6 + j].split()
        ser = int(t[0])
        want = atom_fields(ser) if ser >= 1 else None
        ok = want is not None and close(float(t[1]), want[1]) and all(close(float(t[2 + m]), want[2 + m]) for m in range(3))
        obs.append({"k": "atom", "i": ser if ok else 0})
    rest = lines[6 + nat:]
    table = {i: value(i) for i in range(1, nvalues_max + 1)}
    for j, ln in enumerate(rest):
        ids = []
        for w in ln.split():
            x = float(w)
            hit = [i for i, v in table.items() if x == float("%.5E" % v)]     # equal at the printed precision, exactly
            ids.append(hit[0] if len(hit) == 1 else 0)
        last = j == len(rest) - 1
        obs.append({"k": "vals", "v": ids, "nl": (not last) or ends_nl})
    return obs


def _work(args):
    cases, wdir = args
    core.use_repo()
    from pdb2pqr import io as pio

    out = []
    base = os.path.join(wdir, f"c18-{os.getpid()}")
    for c in cases:
        s = c["shape"]
        n = s["nx"] * s["ny"] * s["nz"]
        open(base + ".dx", "w").write(dx_text(c))
        open(base + ".pqr", "w").write(pqr_text(s["natoms"], style=(s["nx"] + s["ny"] + s["nz"] + s["row"]) % 4))
        try:
            if (n + s["natoms"]) % 3 == 0:
                # the dx2cube console entry point (main.dx_to_cube) on the same files
                import sys
                import pdb2pqr.main as pmain
                old = sys.argv
                sys.argv = ["dx2cube", base + ".dx", base + ".pqr", base + ".cube", "--log-level", "CRITICAL"]
                try:
                    pmain.dx_to_cube()
                finally:
                    sys.argv = old
            else:
                with open(base + ".pqr") as f:
                    atoms = pio.read_pqr(f)
                with open(base + ".dx") as f:
                    d = pio.read_dx(f)
                with open(base + ".cube", "w") as f:
                    pio.write_cube(f, d, atoms)
            obs = parse_cube(open(base + ".cube").read(), n + 6)
        except Exception as e:  # a conversion that fails on a well-formed input is a violation too
            obs = [{"k": "error", "what": f"{type(e).__name__}: {e}"[:200]}]
        out.append(obs)
    for ext in (".dx", ".pqr", ".cube"):
        try:
            os.unlink(base + ext)
        except OSError:
            pass
    return out


def run(ctx):
    rng = random.Random(ctx.seed)
    maxn = 4 if ctx.quick else 6
    ctx.rule = ("every (nx,ny,nz) in 1..MaxN^3 x DX row length {1,2,3} x 0..2 atoms x trailer on/off, each converted by "
                "the real code; distinct = distinct shape; non-trivial = value count not 1 (chunking exercised)")
    ctx.assumptions += ["grid values are distinct decimals of both signs with exponents -10..+10 (some -46 / +39), two or eight "
                        "significant digits, compared exactly at the printed precision (%.5E of the double the DX text denotes)", "DX files follow the layout APBS writes (no blank lines)"]
    ctx.trusted += ["vlib/checks/c18.py dx_text/pqr_text/parse_cube", "TLC 1.8"]
    vals = [value(i) for i in range(1, maxn ** 3 + 7)]
    for a in range(len(vals)):
        for b in range(a + 1, len(vals)):
            if close(vals[a], vals[b], rel=1e-4, ab=0.0):
                raise core.MachineryError("generated grid values are not distinguishable")
    cfg = os.path.join(ctx.work, "mc.cfg")
    consts = f"CONSTANTS\n  MaxN = {maxn}\n  RowLens = {{1, 2, 3}}\n  MaxAtoms = 2\n"
    open(cfg, "w").write(f"SPECIFICATION Spec\n{consts}  Emit = FALSE\nINVARIANT GridPreserved\n")
    r = core.run_tlc("Dx2Cube", cfg, ctx.work, coverage=True, timeout=1200)
    core.need_ok(r, "Dx2Cube")
    ctx.add_tlc(r, f"all shapes <= {maxn}^3")
    if r.invariant:
        ctx.violation({"clause": "model:" + r.invariant}, "the Dx2Cube model violates GridPreserved", {"tlc": r.out[-2000:]})
    for act in ("ReadLine", "WriteHeader", "WriteAtom", "WriteChunk", "Finish"):
        if r.coverage.get(act, (0, 0))[0] == 0:
            raise core.MachineryError(f"vacuous: action {act} never taken")
    open(cfg, "w").write(f"SPECIFICATION Spec\n{consts}  Emit = TRUE\nINVARIANT EmitInv\n")
    r = core.run_tlc("Dx2Cube", cfg, ctx.work, workers=4, timeout=1200)
    core.need_ok(r, "Dx2Cube emit")
    ctx.add_tlc(r, "emission")
    cases = [json.loads(v[1:]) for v in r.printed if isinstance(v, str) and v.startswith("@")]
    want = maxn ** 3 * 3 * 3 * 2
    if len(cases) != want:
        raise core.MachineryError(f"emitted {len(cases)} cases, expected {want}")
    ctx.exhaustive = True
    rng.shuffle(cases)   # order of conversions inside one process varies with the seed
    chunks = [cases[i:i + 40] for i in range(0, len(cases), 40)]
    res = core.pmap(_work, [(ch, ctx.work) for ch in chunks], chunksize=1)
    traces = []
    for ch, obs in zip(chunks, res):
        for c, o in zip(ch, obs):
            traces.append({"id": len(traces) + 1, "shape": c["shape"], "obs": o, "model": c["out"]})
            ctx.evaluations += 1
            if c["shape"]["nx"] * c["shape"]["ny"] * c["shape"]["nz"] > 1:
                ctx.nontrivial.add(json.dumps(c["shape"], sort_keys=True))
    tf = core.write_json(os.path.join(ctx.work, "tr.json"), [{k: t[k] for k in ("id", "shape", "obs")} for t in traces])
    open(cfg, "w").write(f"SPECIFICATION TSpec\n{consts}  Emit = FALSE\nINVARIANT Report\n")
    r = core.run_tlc("Dx2CubeTrace", cfg, ctx.work, workers=4, env={"TRACE_FILE": tf}, timeout=1200)
    core.need_ok(r, "Dx2CubeTrace")
    ctx.add_tlc(r, "trace validation")
    got = {v[1]: v for v in r.printed if isinstance(v, list) and v and v[0] == "T"}
    if len(got) != len(traces):
        raise core.MachineryError(f"{len(got)} verdicts for {len(traces)} traces; {r.unparsed[:2]}")
    ctx.traces += len(traces)
    for t in traces:
        _, _, acc, bad = got[t["id"]]
        s = t["shape"]
        n = s["nx"] * s["ny"] * s["nz"]
        if t["obs"] and t["obs"][0].get("k") == "error":
            bad = ["ConversionFails"]
        for cl in bad:
            ctx.violation({"clause": cl, "n_mod_6": n % 6 if cl in ("ValuesExactlyN", "SixPerLine") else None},
                          f"shape {s}: observed cube {json.dumps(t['obs'])[:300]}",
                          {"shape": s, "observed": t["obs"], "model": t["model"]})
        if not acc and not bad:
            ctx.drift.append({"shape": s, "observed": json.dumps(t["obs"])[:300]})
    ctx.sample({"shape": traces[0]["shape"], "dx": dx_text(cases[0])[:400], "observed_cube": traces[0]["obs"][:9]})
