"""C01 - assigned charges and radii are exactly the selected force field's parameters.

(T-i)  for each built-in force field, the repository's user pair and generated user DAT/names pairs: the DAT lines and
       .names sections (read by the harness's own readers; regex match sets by Python's re) are handed to TLC, which
       computes the parameter map with the actions of ForceField.tla; the map held by the real Forcefield object must
       equal it entry by entry (NoInventedParams / LaterRowWins checked on every state of the load).
(T-ii) every atom of every run of the generated corpus (every residue type and named variant at each chain position,
       neutral termini, DNA/RNA strands, waters, a user force field) is an assign record: the key the run used, the key
       expected from the generator's ground truth, the charge/radius text written to the PQR, reported-as-unassigned;
       TLC judges KeyIsStateName, ParamsAreTableRow, MissOmittedAndReported against the map it computed.
"""
import json
import os
import random
import re
import shutil
import xml.etree.ElementTree as ET

from .. import core, gen

LEVEL = "model_checking"
DATA = os.path.join(core.REPO, "tests", "data")
DAT = os.path.join(core.REPO, "pdb2pqr", "dat")


# ------------------------------------------------------------------ independent readers of the documented formats
def read_dat(path):
    rows = []
    for ln in open(path, encoding="utf-8"):
        if ln.startswith("#"):
            continue
        f = ln.split()
        if not f:
            continue
        rows.append({"res": f[0], "atom": f[1], "q": f"{float(f[2]):.4f}", "r": f"{float(f[3]):.4f}"})
    return rows


def read_names(path, universe, defnames):
    """sections of a .names file with their match sets over `universe` (ordered: definition names first)"""
    text = open(path, encoding="utf-8").read()
    root = ET.fromstring(text)
    secs = []
    for res in root.iter("residue"):
        name = (res.findtext("name") or "").strip()
        use = (res.findtext("useresname") or "").strip()
        pairs = []
        for at in res.findall("atom"):
            new = (at.findtext("name") or "").strip()
            old = (at.findtext("useatomname") or "").strip()
            hit = [k for k, p in enumerate(pairs) if p[0] == new]
            if hit:
                pairs[hit[0]] = [new, old]          # a dict assignment: the earlier position is kept
            else:
                pairs.append([new, old])
        rx = re.compile(name + "$")
        matches = []
        for u in universe:
            m = rx.match(u)
            if m:
                frm = use
                if "$group" in use:
                    try:
                        frm = use.replace("$group", m.group(1))
                    except IndexError:
                        frm = use
                matches.append({"name": u, "frm": frm, "def": u in defnames})
        secs.append({"use": use, "group": "$group" in use, "matches": matches, "atoms": pairs, "pattern": name})
    return secs


DECOY = None


def make_decoy(wd):
    """a working directory holding files named like the built-in force fields (other values): the built-in files are the
    packaged ones wherever the program is started from"""
    global DECOY
    d = os.path.join(wd, "decoy-cwd")
    os.makedirs(d, exist_ok=True)
    for ffn in gen.FORCE_FIELDS:
        lines = []
        for ln in open(os.path.join(DAT, ffn + ".DAT")):
            w = ln.split()
            if len(w) >= 4 and not ln.startswith("#"):
                try:
                    w[2] = f"{float(w[2]) + 0.123:.4f}"
                    ln = "\t".join(w) + "\n"
                except ValueError:
                    pass
            lines.append(ln)
        for nm in (ffn.upper(), ffn.lower()):
            for suf in ("", ".DAT", ".dat"):
                open(os.path.join(d, nm + suf), "w").writelines(lines)
            for suf in (".names", ".NAMES"):
                open(os.path.join(d, nm + suf), "w").write("<?xml version='1.0'?>\n<patches>\n</patches>\n")
    DECOY = d


def real_map(ff_name, userff=None, usernames=None):
    core.use_repo()
    from pdb2pqr import forcefield

    cwd = os.getcwd()
    try:
        if DECOY:
            os.chdir(DECOY)
        ff = forcefield.Forcefield(ff_name, gen.definitions(), userff, usernames)
    except Exception as e:
        return [], type(e).__name__
    finally:
        os.chdir(cwd)
    out = []
    for res, obj in ff.map.items():
        for atom, a in obj.atoms.items():
            out.append({"res": res, "atom": atom, "q": f"{a.charge:.4f}", "r": f"{a.radius:.4f}", "nres": a.resname, "natom": a.name})
    return out, ""


def trace_for(name, datpath, namespath, ff_name, userff=None, usernames=None):
    rows = read_dat(datpath)
    defnames = list(gen.definitions().map.keys())
    universe = defnames + sorted(set(r["res"] for r in rows) - set(defnames))
    secs = read_names(namespath, universe, set(defnames))
    rm, rerr = real_map(ff_name, userff, usernames)
    return {"id": name, "rows": rows, "sections": [{k: s[k] for k in ("use", "group", "matches", "atoms")} for s in secs],
            "realmap": rm, "realerr": rerr, "assign": []}


# ------------------------------------------------------------------ generated user pairs
def random_pair(rng, wd, k):
    residues = ["ALA", "GLY", "WAT", "XAA", "NALA", "CALA"]
    atoms = ["N", "CA", "C", "O", "H", "HN", "OW", "HW", "H1"]
    rows = []
    for _ in range(rng.randint(3, 14)):
        rows.append((rng.choice(residues), rng.choice(atoms), rng.choice([-0.5, 0.25, 0.1, 0.0, 1.0]), rng.choice([1.2, 1.5, 0.0, 2.0])))
    dat = os.path.join(wd, f"u{k}.dat")
    with open(dat, "w") as f:
        f.write("# generated\n")
        for r in rows:
            f.write(f"{r[0]}\t{r[1]}\t{r[2]:.4f}\t{r[3]:.4f}\n")
            if rng.random() < 0.15:
                f.write("\n")
    patterns = ["ALA", "GLY", "WAT", "[NC]?ALA", "[NC]?...$", "(A)LA", "N(ALA)", "G..", "X..", "SER"]
    if k % 3 == 0:
        # names files shared between parameter sets: sections (with atom entries) for residues this one does not have
        patterns += ["ZZZ", "HOH", "D[ACGT]3?", "SER"]
    secs = []
    for _ in range(rng.randint(0, 4) + (2 if k % 3 == 0 else 0)):
        pat = rng.choice(patterns)
        use = ""
        if rng.random() < 0.5:
            use = rng.choice([r[0] for r in rows])           # a residue that exists (plain form must exist)
            if "(" in pat and rng.random() < 0.7:
                use = rng.choice(["X$groupA", "$groupLA", "N$group"])
        ats = []
        for _ in range(rng.randint(0, 3)):
            ats.append((rng.choice(atoms), rng.choice(atoms)))
        secs.append((pat, use, ats))
    names = os.path.join(wd, f"u{k}.names")
    with open(names, "w") as f:
        f.write("<?xml version='1.0'?>\n<patches>\n")
        for pat, use, ats in secs:
            f.write(f"  <residue>\n    <name>{pat}</name>\n")
            if use:
                f.write(f"    <useresname>{use}</useresname>\n")
            for new, old in ats:
                f.write(f"    <atom>\n      <name>{new}</name>\n      <useatomname>{old}</useatomname>\n    </atom>\n")
            f.write("  </residue>\n")
        f.write("</patches>\n")
    return dat, names


# ------------------------------------------------------------------ assign records from pipeline runs
def want_key(t, pos_in_strand=None):
    nm = t["name"]
    if t.get("real") and nm == "CYS":
        return ""          # may be disulfide-bonded in a real structure
    if t["cls"] == "wat":
        return "WAT"
    if t["cls"] != "aa":
        return ""
    if nm in ("HIS", "HID", "HIE", "HIP", "HSD", "HSE", "HSP"):
        return ""
    if t["n"] and t["c"]:
        return ""
    pre = ""
    if t["n"]:
        pre = "NEUTRAL-N" if (t["nn"] and nm != "PRO") else "N"
    elif t["c"]:
        pre = "NEUTRAL-C" if t["nc"] else "C"
    return pre + nm


def _pipe_job(job):
    if job.get("sequence"):
        # several runs in one process, each against its own force-field pair (a later user force field must not be
        # answered from an earlier one)
        out = {"ok": True, "exc": "", "recs": [], "parts": []}
        for sub in job["sequence"]:
            o = _pipe_job(sub)
            out["parts"].append((sub["ff"], o))
        return out
    from .. import runner
    from .c02 import BASE_OF, VARIANTS

    wd = os.path.join(core.VERIF, ".work", f"c01-{os.getpid()}")
    os.makedirs(wd, exist_ok=True)
    open(os.path.join(wd, "in.pdb"), "w").write(job["text"])
    r = runner.run(job["args"] + [os.path.join(wd, "in.pdb"), os.path.join(wd, "o.pqr")])
    recs = []
    if r["ok"]:
        core.use_repo()
        from pdb2pqr import aa, na
        missed = set(id(a) for a in (r["missed"] or []))
        written = [a for a in r["bio"].atoms if id(a) not in missed]
        lines = [ln for ln in open(os.path.join(wd, "o.pqr")).read().split("\n") if ln.startswith(("ATOM", "HETATM"))]
        text = {}
        if len(lines) == len(written):
            for a, ln in zip(written, lines):
                text[id(a)] = (f"{float(ln[54:62]):.4f}", f"{float(ln[62:69]):.4f}")
        else:
            recs.append({"key": "?", "want": "", "atom": f"{len(lines)} lines for {len(written)} matched atoms", "q": "x", "r": "x",
                         "missed": False, "lig": False})
        truth = {}
        for t in job["truth"]:
            truth[(t["key"][1], t["key"][2], t["key"][0])] = t
        strand_pos = {}
        for s in job["strands"]:
            rs = [x for x in r["bio"].residues if x.chain_id == s["chain"] and isinstance(x, na.Nucleic)]
            for k, x in enumerate(rs):
                strand_pos[id(x)] = ("5" if k == 0 else "") + ("3" if k == len(rs) - 1 else "")
        for res in r["bio"].residues:
            key = res.ffname if isinstance(res, (aa.Amino, aa.WAT, na.Nucleic)) else res.name
            t = truth.get((res.res_seq, res.ins_code, res.chain_id))
            want = want_key(t) if t else ""
            if isinstance(res, na.Nucleic) and id(res) in strand_pos:
                base = res.name[-1] if res.name[-1] in "ACGTU" else ""
                kind = "R" if (job.get("rna") or res.has_atom("O2'")) else "D"   # ground truth of the generator where it says so
                want = kind + base + strand_pos[id(res)] if base else ""
            for a in res.atoms:
                q, rad = text.get(id(a), ("", ""))
                recs.append({"key": key, "want": want, "atom": a.name, "q": q, "r": rad, "missed": id(a) in missed, "lig": False})
    shutil.rmtree(wd, ignore_errors=True)
    return {"ok": r["ok"], "exc": r["exc_type"], "recs": recs}


def run(ctx):
    rng = random.Random(ctx.seed)
    from .c02 import corpus
    ctx.rule = ("maps: six built-in force fields + the repository's user pair + generated user DAT/names pairs (random rows, "
                "sections with regex / $group / atom aliases); assign records: every atom of every run of the generated corpus "
                "(as C02) plus runs with the user pair.  Distinct = distinct force-field pair / distinct (key, atom, force field); "
                "non-trivial = pair with at least one section / record with a key other than the plain residue name")
    ctx.assumptions += ["regular-expression matching is delegated to Python's re (match sets are computed by the harness)",
                        "canonical definition names are taken from pdb2pqr's own topology loader",
                        "charges and radii are compared as text at the 4 decimals the PQR carries"]
    ctx.trusted += ["vlib/checks/c01.py read_dat/read_names (independent readers of the documented formats)", "TLC 1.8"]
    ffs = gen.FORCE_FIELDS
    traces = {}
    os.makedirs(ctx.work, exist_ok=True)
    make_decoy(ctx.work)
    for ff in ffs:
        traces[ff] = trace_for(ff, os.path.join(DAT, ff + ".DAT"), os.path.join(DAT, ff + ".names"), ff.lower())
    udat, unames = os.path.join(DATA, "custom-ff.dat"), os.path.join(DATA, "custom.names")
    traces["USER"] = trace_for("USER", udat, unames, "parse", udat, unames)
    fd = os.path.join(ctx.work, "pairs")
    os.makedirs(fd, exist_ok=True)
    # a built-in parameter file with a user names file (--ff=X --usernames=F without --userff): F is the map that counts
    for ffn, drop in (("AMBER", "WAT"), ("PARSE", "HIS"), ("CHARMM", "LYS")):
        names_text = open(os.path.join(DAT, ffn + ".names")).read()
        cut = re.sub(r"<residue>\s*<name>" + drop + r"</name>.*?</residue>", "", names_text, count=1, flags=re.S)
        if cut != names_text:
            nf = os.path.join(fd, f"{ffn}-without-{drop}.names")
            open(nf, "w").write(cut)
            traces[f"{ffn}+usernames"] = trace_for(f"{ffn}+usernames", os.path.join(DAT, ffn + ".DAT"), nf, ffn.lower(), None, nf)
    npairs = 40 if ctx.quick else 300
    for k in range(npairs):
        d, n = random_pair(rng, fd, k)
        traces[f"GEN{k}"] = trace_for(f"GEN{k}", d, n, "parse", d, n)
    # corpus runs
    jobs = corpus(ctx, rng)
    pep = gen.pdb_text([gen.peptide(["ALA", "ASP", "HIS", "LYS", "SER", "CYS"]) + gen.water((6, 14, 4), resseq=101)])
    from .c02 import _pipe_job as _unused  # noqa
    ujob = {"what": "user pair peptide", "text": pep, "args": [f"--userff={udat}", f"--usernames={unames}"], "truth": [], "strands": [],
            "ff": "USER"}
    for j in jobs:
        m = next((re.match(r"--ff=(\w+)", a) for a in j["args"] if a.startswith("--ff=")), None)
        j["ff"] = m.group(1).upper() if m else "PARSE"
    # a second user pair (same names file, other radii) run after the first one in the same process
    u2 = os.path.join(fd, "custom2.dat")
    with open(u2, "w") as f:
        for ln in open(udat):
            w = ln.split()
            if len(w) >= 4 and not ln.startswith("#") and w[1] in ("CB", "CA"):
                w[3] = f"{float(w[3]) + 0.5:.4f}"
                ln = "\t".join(w) + "\n"
            f.write(ln)
    traces["USER2"] = trace_for("USER2", u2, unames, "parse", u2, unames)
    ujob2 = dict(ujob, what="user pair 2 peptide", args=[f"--userff={u2}", f"--usernames={unames}"], ff="USER2")
    jobs.append({"what": "user pairs in sequence", "sequence": [ujob, ujob2, dict(ujob, what="user pair peptide again")], "ff": "USER",
                 "text": "", "args": [], "truth": [], "strands": []})
    res = core.pmap(_pipe_job, jobs, chunksize=2)
    nrec = 0
    flat = []
    for j, o in zip(jobs, res):
        if "parts" in o:
            for (ffn, po), sub in zip(o["parts"], j["sequence"]):
                flat.append((dict(sub, ff=ffn), po))
        else:
            flat.append((j, o))
    for j, o in flat:
        ctx.evaluations += 1
        if not o["ok"]:
            if len(ctx.drift) < 20:
                ctx.drift.append({"what": j["what"], "run_failed": o["exc"]})
            continue
        for rec in o["recs"]:
            rec["what"] = j["what"]
        traces[j["ff"]]["assign"] += o["recs"]
        nrec += len(o["recs"])
        for rec in o["recs"]:
            if rec["key"] != rec["want"] or rec["key"][:1] in "NCDR" and len(rec["key"]) > 3:
                ctx.nontrivial.add((j["ff"], rec["key"], rec["atom"]))
    ctx.extra["assign_records"] = nrec
    cfg = os.path.join(ctx.work, "f.cfg")
    open(cfg, "w").write("SPECIFICATION TSpec\nINVARIANT AtEnd\n")
    cfg_small = os.path.join(ctx.work, "fs.cfg")       # the model's own invariants on every state of small loads
    open(cfg_small, "w").write("SPECIFICATION TSpec\nINVARIANT AtEnd\nINVARIANT NoInventedParams\nINVARIANT LaterRowWins\n")

    def one(item):
        name, t = item
        tf = core.write_json(os.path.join(ctx.work, f"ff-{name}.json"),
                             {k: (t[k] if k != "assign" else [{x: a[x] for x in ("key", "want", "atom", "q", "r", "missed", "lig")} for a in t["assign"]])
                              for k in ("id", "rows", "sections", "realmap", "realerr", "assign")})
        return name, core.run_tlc("ForceFieldTrace", cfg_small if len(t["rows"]) < 200 else cfg, ctx.work, workers=1, env={"TRACE_FILE": tf}, timeout=1800, heap="3g")
    import concurrent.futures as cf
    with cf.ThreadPoolExecutor(max_workers=8) as ex:
        results = list(ex.map(one, traces.items()))
    for name, r in results:
        t = traces[name]
        core.need_ok(r, f"ForceFieldTrace/{name}")
        ctx.add_tlc(r, f"map + assign validation {name}")
        if r.invariant:
            ctx.violation({"clause": "model:" + r.invariant, "ff": name}, f"{name}: ForceField model violates {r.invariant}", {"tlc": r.out[-1500:]})
            continue
        if not any(isinstance(v, list) and v and v[0] == "END" for v in r.printed):
            raise core.MachineryError(f"ForceFieldTrace/{name} did not reach the end: {r.unparsed[:2]} {r.out[-800:]}")
        ctx.traces += 1
        if t["sections"]:
            ctx.nontrivial.add(("pair", name))
        for v in r.printed:
            if not isinstance(v, list) or not v:
                continue
            if v[0] in ("MAP", "MAPSIZE", "LOADERR"):
                ctx.violation({"clause": "RealMapEqualsDocumentedSemantics", "ff": name if not name.startswith("GEN") else "generated", "kind": v[0]},
                              f"{name}: {v}", {"verdict": v, "sections": t["sections"][:6] if name.startswith("GEN") else None,
                                               "rows": t["rows"][:20] if name.startswith("GEN") else None})
            elif v[0] in ("KEY", "PARAM", "MISS", "UNWRITTEN"):
                a = t["assign"][v[2] - 1]
                clause = {"KEY": "KeyIsStateName", "PARAM": "ParamsAreTableRow", "MISS": "MissOmittedAndReported", "UNWRITTEN": "RowImpliesWritten"}[v[0]]
                ctx.violation({"clause": clause, "ff": name, "key": a["key"], "want": a["want"] if v[0] == "KEY" else None},
                              f"{name} {a['what']}: atom {a['atom']} key {a['key']} (expected {a['want'] or 'n/a'}) written q={a['q']} r={a['r']} "
                              f"missed={a['missed']}", {"record": a})
    ctx.sample({"force_field": "AMBER", "rows": traces["AMBER"]["rows"][:2], "first_section": traces["AMBER"]["sections"][0]["atoms"],
                "assign_record": traces["AMBER"]["assign"][:2]})
    g0 = traces.get("GEN0")
    if g0:
        ctx.sample({"generated_pair": {"rows": g0["rows"][:4], "sections": [{k: s[k] for k in ("use", "atoms")} for s in g0["sections"][:2]],
                                       "real_load_error": g0["realerr"]}})
