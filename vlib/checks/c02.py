"""C02 - every residue carries the formal charge of its protonation and terminal state.

(M) TLC: Termini.tla over ~3.7k chain configurations (amino runs with OXT anywhere, nucleotide runs, hetero tails, caps,
    two chains, cyclic flag, both neutral options): TerminiOncePerEnd against an independently defined segment notion.
(R) every configuration is concretised as PDB text and run through the real read_pdb / Biomolecule / set_termini /
    update_bonds / set_states; the observed terminus flags go back to TLC (TerminiTrace).
(T) pipeline runs of generated peptides (every residue type and named protonation variant at N-terminal, internal and
    C-terminal position), DNA/RNA strands, multi-chain inputs with numbering variations, neutral-terminus options and the
    repository's cyclic peptide under every force field: residue charges judged by TLC against a formal-charge table.
"""
import io
import json
import os
import random
import shutil

import numpy as np

from .. import core, gen

LEVEL = "model_checking"
DATA = os.path.join(core.REPO, "tests", "data")
VARIANTS = ["ASH", "GLH", "HIP", "HID", "HIE", "CYM", "LYN", "TYM", "AR0"]
BASE_OF = {"ASH": "ASP", "GLH": "GLU", "HIP": "HIS", "HID": "HIS", "HIE": "HIS", "CYM": "CYS", "LYN": "LYS", "TYM": "TYR",
           "AR0": "ARG"}


# ------------------------------------------------------------------ concretisation of a Termini case
def concretise(cs):
    """PDB text for a case: chains of kinds -> residues with coordinates"""
    chains_out = []
    serial_res = 0
    for ci, chain in enumerate(cs["chains"]):
        cid = "ABCDEFGH"[ci]
        atoms = []
        kinds = [cs["kind"][r - 1] for r in chain]
        # split the chain into runs: amino segments (cut after AO), nucleotides, hetero
        pos = np.array([0.0, 40.0 * ci, 0.0])
        i = 0
        resnum = 0
        while i < len(kinds):
            kd = kinds[i]
            if kd in ("A", "AO"):
                j = i
                while j < len(kinds) and kinds[j] in ("A", "AO"):
                    j += 1
                    if kinds[j - 1] == "AO":
                        break
                seg = kinds[i:j]
                pep = gen.peptide(["ALA"] * len(seg), chain=cid, start=resnum + 1, oxt=False, origin=tuple(pos))
                if seg[-1] == "AO":
                    oxt = gen.peptide(["ALA"] * len(seg), chain=cid, start=resnum + 1, oxt=True, origin=tuple(pos))
                    pep = oxt
                atoms += pep
                resnum += len(seg)
                pos = pos + np.array([0.0, 0.0, 25.0])
                i = j
            elif kd in ("N", "N3"):
                nt = gen.nucleic("A", "D", chain=cid, start=resnum + 1, origin=tuple(pos), names=["DA3" if kd == "N3" else "DA"])
                atoms += nt
                resnum += 1
                pos = pos + np.array([0.0, 0.0, 12.0])
                i += 1
            else:
                resnum += 1
                if kd == "W":
                    atoms += gen.water(tuple(pos + np.array([5.0, 5.0, 0])), chain=cid, resseq=resnum)
                elif kd == "L":
                    atoms += [{"rec": "HETATM", "name": "C1", "resname": "LIG", "chain": cid, "resseq": resnum, "icode": "",
                               "xyz": pos + np.array([9.0, 3.0, 0])}]
                elif kd == "C":
                    atoms += [{"rec": "ATOM", "name": n, "resname": "NME", "chain": cid, "resseq": resnum, "icode": "",
                               "xyz": pos + np.array([12.0 + k, 1.0, 0])} for k, n in enumerate(("N", "CH3"))]
                pos = pos + np.array([0.0, 0.0, 6.0])
                i += 1
        # cyclic flag: move the C of the last residue of the pair next to the N of the first
        for (a, b) in cs["cyc"]:
            if a in chain and b in chain:
                ra, rb = chain.index(a) + 1, chain.index(b) + 1
                n_at = next(x for x in atoms if x["resseq"] == ra and x["name"] == "N")
                c_at = next(x for x in atoms if x["resseq"] == rb and x["name"] == "C")
                c_at["xyz"] = n_at["xyz"] + np.array([1.30, 0.0, 0.0])
        chains_out.append(atoms)
    return gen.pdb_text(chains_out, ter=True)


def _unit_job(cases):
    core.use_repo()
    from pdb2pqr import pdb as ppdb, main as pmain

    out = []
    for cs in cases:
        text = concretise(cs)
        nres = len(cs["kind"])
        obs, err = [], ""
        try:
            pdblist, _ = ppdb.read_pdb(io.StringIO(text))
            bio, _d, _l = pmain.setup_molecule(pdblist, gen.definitions(), None)
            order = [(r.chain_id, r.res_seq) for r in bio.residues]
            bio.set_termini(neutraln=cs["nn"], neutralc=cs["nc"])
            bio.update_bonds()
            bio.set_states()
            by = {}
            for r in bio.residues:
                by[id(r)] = r
            # residues in file order: original (chain, number) recorded before set_termini may re-letter chains
            res_in_order = []
            seen = set()
            for ch in sorted(set(c for c, _ in order)):
                pass
            allres = list(bio.residues)
            # map by identity through the order captured before the call
            pdb_order = order
            lookup = {}
            for r in allres:
                lookup.setdefault(r.res_seq, []).append(r)
        except Exception as e:
            err = type(e).__name__
            allres = []
        if not err:
            # residue numbers restart per input chain: recover file order from the object list captured at creation
            created = []
            try:
                pdblist2, _ = ppdb.read_pdb(io.StringIO(text))
            except Exception:
                pdblist2 = []
            # the Biomolecule keeps residues in chain order; chains are lettered A.. in file order, splits insert new
            # chains, so sort by the coordinates of the first atom's serial number instead
            allres.sort(key=lambda r: min(a.serial for a in r.atoms) if r.atoms else 10 ** 9)
            for r in allres:
                obs.append({"n": bool(getattr(r, "is_n_term", 0)), "c": bool(getattr(r, "is_c_term", 0)),
                            "t5": bool(getattr(r, "is5term", 0)), "t3": bool(getattr(r, "is3term", 0))})
            if len(obs) != nres:
                err = f"residue-count {len(obs)}"
                obs = []
        out.append({"obs": obs, "err": err, "text": text})
    return out


# ------------------------------------------------------------------ pipeline level
def corpus(ctx, rng):
    """(what, pdb text, args, residue ground truth, strands)"""
    jobs = []
    ffs = gen.FORCE_FIELDS

    def truth(chains, nn=False, nc=False):
        res = []
        for atoms in chains:
            keys = []
            for a in atoms:
                k = (a["chain"], a["resseq"], a["icode"])
                if k not in keys:
                    keys.append(k)
            names = {}
            for a in atoms:
                names[(a["chain"], a["resseq"], a["icode"])] = a["resname"]
            aa_keys = [k for k in keys if names[k] in gen.AMINO or names[k] in VARIANTS]
            for k in keys:
                nm = names[k]
                cls = "aa" if k in aa_keys else ("wat" if nm in ("HOH", "WAT") else ("na" if nm in ("DA", "DC", "DG", "DT", "A", "C", "G", "U") else "other"))
                res.append({"key": list(k), "name": nm, "cls": cls, "n": bool(aa_keys) and k == aa_keys[0],
                            "c": bool(aa_keys) and k == aa_keys[-1], "nn": nn, "nc": nc})
        return res
    names_all = gen.AMINO + VARIANTS
    for x in names_all:
        for pos in range(3):
            seq = ["ALA", "ALA", "ALA"]
            seq[pos] = x
            tpl = [BASE_OF.get(s, s) if s in ("HID", "HIE") else s for s in seq]
            chains = [gen.peptide([s if s in gen.definitions().map else BASE_OF[s] for s in seq], names=seq)]
            pick = ffs if not ctx.quick else [ffs[(names_all.index(x) + pos + ctx.seed) % 6]]
            for ff in pick:
                jobs.append({"what": f"{'-'.join(seq)} ff={ff}", "text": gen.pdb_text(chains), "args": [f"--ff={ff}"],
                             "truth": truth(chains), "strands": []})
    # neutral termini (PARSE)
    for x in (["LYS", "ASP", "GLY", "CYS"] if ctx.quick else gen.AMINO):
        if x == "PRO":
            continue
        chains = [gen.peptide([x, "ALA", x])]
        for nn, nc in ((True, False), (False, True), (True, True)):
            args = ["--ff=PARSE"] + (["--neutraln"] if nn else []) + (["--neutralc"] if nc else [])
            jobs.append({"what": f"{x}-ALA-{x} {args}", "text": gen.pdb_text(chains), "args": args, "truth": truth(chains, nn, nc), "strands": []})
    # strands
    for kind, seq in (("D", "ACGT"), ("R", "ACGU"), ("D", "GA"), ("R", "UUC")):
        for ff in ("AMBER", "CHARMM", "TYL06", "PARSE"):
            if ff == "PARSE" and kind == "D":
                continue
            at = gen.nucleic(seq, kind)
            jobs.append({"what": f"{'DNA' if kind == 'D' else 'RNA'} {seq} ff={ff}", "text": gen.pdb_text([at]), "args": [f"--ff={ff}"],
                         "truth": truth([at]), "strands": [{"chain": "N", "len": len(seq)}]})
    # nucleic acids as deposited: the current names of the phosphate oxygens (OP1 / OP2); a 2'-hydroxyl oxygen missing from the
    # input (rebuilt by the repair step - the residue is still a ribonucleotide); waters listed after the strand under the
    # strand's chain identifier
    for kind, seq, ff in (("D", "ATCGT", "AMBER"), ("R", "ACGU", "AMBER"), ("D", "TA", "CHARMM"), ("R", "GCA", "TYL06")):
        at = [dict(a, name={"O1P": "OP1", "O2P": "OP2"}.get(a["name"], a["name"])) for a in gen.nucleic(seq, kind)]
        jobs.append({"what": f"{'DNA' if kind == 'D' else 'RNA'} {seq} OP1/OP2 names ff={ff}", "text": gen.pdb_text([at]), "args": [f"--ff={ff}"],
                     "truth": truth([at]), "strands": [{"chain": "N", "len": len(seq)}]})
    for seq, drop, ff in (("ACGU", 2, "AMBER"), ("GA", 1, "TYL06"), ("CCA", 0, "CHARMM"), ("AG", 0, "AMBER")):
        at = [a for a in gen.nucleic(seq, "R") if not (a["res_index"] == drop and a["name"] == "O2'")]
        jobs.append({"what": f"RNA {seq} without O2' on nucleotide {drop + 1} ff={ff}", "text": gen.pdb_text([at]), "args": [f"--ff={ff}"],
                     "truth": truth([at]), "strands": [{"chain": "N", "len": len(seq)}], "rna": True})
    for kind, seq, ff in (("D", "ACGT", "AMBER"), ("R", "ACGU", "CHARMM"), ("D", "GC", "TYL06"), ("R", "UA", "AMBER")):
        at = gen.nucleic(seq, kind) + gen.water((9.0, 4.0, 3.0), chain="N", resseq=50) + gen.water((-8.0, 5.0, 12.0), chain="N", resseq=51)
        jobs.append({"what": f"{'DNA' if kind == 'D' else 'RNA'} {seq} + waters under the strand's chain id ff={ff}", "text": gen.pdb_text([at]),
                     "args": [f"--ff={ff}"], "truth": truth([at]), "strands": [{"chain": "N", "len": len(seq)}]})
    # amidated peptides (NH2 cap): the residue before the cap is not a C-terminus, whatever follows the cap under the same chain id
    for seq, ff in ((["ALA", "THR"], "AMBER"), (["LYS", "GLY", "ASP"], "PARSE"), (["SER", "CYS", "GLU"], "CHARMM")):
        pep = gen.peptide(seq, oxt=False)
        cap = gen.cap_nh2(len(seq))
        for tail in ([], gen.water((9.0, 4.0, 3.0), chain="A", resseq=60) + gen.water((-8.0, 5.0, 2.0), chain="A", resseq=61)):
            tr = truth([pep + cap + tail])
            for t in tr:
                if t["cls"] == "aa":
                    t["c"] = False
            jobs.append({"what": f"{'-'.join(seq)}-NH2{' + waters after the cap' if tail else ''} ff={ff}", "text": gen.pdb_text([pep + cap + tail]),
                         "args": [f"--ff={ff}"], "truth": tr, "strands": []})
    # multi-chain, numbering variations, waters, protein + DNA
    for k in range(3 if ctx.quick else 10):
        nch = rng.choice([2, 3])
        chains = []
        for c in range(nch):
            seq = [rng.choice(gen.AMINO) for _ in range(rng.choice([2, 3, 4]))]
            start = rng.choice([1, -3, 95, 998])
            at = gen.transform(gen.peptide(seq, chain="ABC"[c], start=start), t=(0, 45.0 * c, 0))
            if rng.random() < 0.5:
                at += gen.water((8, 45.0 * c + 12, 5), chain="ABC"[c], resseq=start + 20)
            chains.append(at)
        strands = []
        if k % 2 == 0:
            chains.append(gen.nucleic("CG", "D", chain="D", origin=(40, 0, 0)))
            strands = [{"chain": "D", "len": 2}]
        ff = rng.choice(["AMBER", "CHARMM", "TYL06"])
        jobs.append({"what": f"multi-chain #{k} ff={ff}", "text": gen.pdb_text(chains), "args": [f"--ff={ff}"], "truth": truth(chains),
                     "strands": strands})
    # three peptides under one chain id separated only by OXT
    a = gen.peptide(["LYS", "ALA"], chain="A", start=1)
    b = gen.transform(gen.peptide(["GLY", "ASP", "SER"], chain="A", start=3), t=(0, 0, 30))
    c = gen.transform(gen.peptide(["ARG", "ALA"], chain="A", start=6), t=(0, 0, 60))
    tr = truth([a]) + truth([b]) + truth([c])
    for ff in (["AMBER"] if ctx.quick else ffs):
        jobs.append({"what": f"three peptides one chain id ff={ff}", "text": gen.pdb_text([a + b + c]), "args": [f"--ff={ff}"],
                     "truth": tr, "strands": []})
    # a protonated model (first run, --pdb-output) re-assigned with --assign-only: the states are the given ones; histidines
    # are also given under the plain name HIS (both ring hydrogens = HIP, one = HID / HIE)
    for seq in (["ALA", "HIP", "ALA"], ["ALA", "HID", "ALA"], ["ALA", "HIE", "ALA"], ["HIP", "ALA", "HIP"], ["HID", "ASH", "LYS", "GLH", "HIE"],
                ["ALA", "CYM", "TYR", "LYN", "ALA"]):
        chains = [gen.peptide([s if s in gen.definitions().map else BASE_OF[s] for s in seq], names=seq)]
        for ff in (["AMBER"] if ctx.quick else ["AMBER", "PARSE", "CHARMM"]):
            for rename in ({}, {"HIP": "HIS", "HID": "HIS", "HIE": "HIS"}):
                if not rename or any(x in rename for x in seq):
                    jobs.append({"what": f"assign-only on protonated {'-'.join(seq)} ff={ff} renamed={sorted(rename)}", "text": gen.pdb_text(chains),
                                 "args": [f"--ff={ff}", "--assign-only"], "prerun": [f"--ff={ff}"], "rename": rename,
                                 "truth": truth(chains), "strands": []})
    # a large protonated model (> 500 residues) with one hydroxyl hydrogen deleted, re-assigned: a run that cannot give integral
    # charges must not succeed whatever the size of the system (when it is refused there is nothing to judge)
    big = [gen.transform(gen.peptide([gen.AMINO[(c + j) % 20] for j in range(20)], chain="ABCDEFGHIJKLMNOPQRSTUVWXYZ"[c], start=1), t=(0, 0, 40.0 * c))
           for c in range(26)]
    ser = next(a for a in big[3] if a["resname"] == "SER")
    jobs.append({"what": "520 residues protonated, one HG deleted, assign-only ff=AMBER", "text": gen.pdb_text(big), "args": ["--ff=AMBER", "--assign-only"],
                 "prerun": ["--ff=AMBER", "--noopt", "--nodebump"], "rename": {}, "delete": [["D", ser["resseq"], "HG"]], "truth": truth(big), "strands": []})
    # protonated strands re-assigned with a terminal hydroxyl hydrogen deleted: the defect sits on a strand end only; a run that
    # cannot give the strand its integral charge must not succeed (when it is refused there is nothing to judge)
    for kind, seq, (rs, hn) in (("D", "ACGT", (1, "H5T")), ("D", "ACGT", (4, "H3T")), ("R", "ACGU", (1, "H5T"))):
        at = gen.nucleic(seq, kind)
        jobs.append({"what": f"{'DNA' if kind == 'D' else 'RNA'} {seq} protonated, {hn} of nucleotide {rs} deleted, assign-only ff=AMBER",
                     "text": gen.pdb_text([at]), "args": ["--ff=AMBER", "--assign-only"], "prerun": ["--ff=AMBER", "--noopt", "--nodebump"],
                     "rename": {}, "delete": [["N", rs, hn]], "truth": truth([at]), "strands": [{"chain": "N", "len": len(seq)}]})
    # many chains without chain identifiers (TER-separated)
    for nch in ([5, 63] if ctx.quick else [2, 5, 26, 52, 62, 63, 64, 70]):
        for oxt in (True, False):
            chains = [gen.transform(gen.peptide([gen.AMINO[(c + j) % 20] for j in range(3)], chain="", start=1 + 3 * c, oxt=oxt), t=(0, 0, 12.0 * c))
                      for c in range(nch)]
            jobs.append({"what": f"{nch} chains without identifier{'' if oxt else ', no OXT'}", "text": gen.pdb_text(chains),
                         "args": ["--ff=AMBER", "--noopt", "--nodebump"], "truth": truth(chains), "strands": []})
    # the input variants shared with C03 / C04 / C05 (conformations, omitted atoms, other spellings, several peptides per chain
    # id, a MODEL wrapper, ...): whatever the shape of the input, residue charges are the formal ones
    from .. import corpus as shared
    for j in shared.variants(True, random.Random(ctx.seed + 21)):
        if "--clean" in j["args"] or "gap" in j["what"] or any("propka" in a for a in j["args"]):
            continue        # no charges under --clean; a backbone gap is a chain end the input does not mark; titration changes
                            # the states away from the names in the input (C06 judges those)
        jobs.append({"what": f"variant: {j['what']} {' '.join(j['args'])}", "text": j["text"], "args": j["args"],
                     "truth": truth_from_text(j["text"], "--neutraln" in j["args"], "--neutralc" in j["args"]), "strands": []})
    # the repository's cyclic peptide: no termini at all
    cyc_text = open(os.path.join(DATA, "5vav_cyclic_peptide.pdb")).read()
    tr = []
    seen = []
    for ln in cyc_text.split("\n"):
        if ln.startswith(("ATOM", "HETATM")):
            k = [ln[21:22].strip(), int(ln[22:26]), ln[26:27].strip()]
            if k not in seen:
                seen.append(k)
                nm = ln[17:20].strip()
                tr.append({"key": k, "name": nm, "cls": "aa" if nm in gen.AMINO else ("wat" if nm == "HOH" else "other"), "n": False,
                           "c": False, "nn": False, "nc": False, "real": True})
    for ff in (["AMBER", "PARSE"] if ctx.quick else ffs):
        jobs.append({"what": f"5vav cyclic ff={ff}", "text": cyc_text, "args": [f"--ff={ff}"], "truth": tr, "strands": []})
    # the cyclic peptide next to other chains: a linear peptide, waters with a chain id of their own
    body = "\n".join(ln for ln in cyc_text.split("\n") if ln.startswith(("ATOM", "HETATM", "TER")))
    other = gen.transform(gen.peptide(["LYS", "ALA", "ASP", "GLY"], chain="B", start=101), t=(60.0, 0, 0))
    wch = gen.water((40, 40, 40), chain="W", resseq=201) + gen.water((44, 40, 40), chain="W", resseq=202)
    for label, extra in (("linear chain B", [other]), ("water chain W", [wch]), ("chain B and waters", [other, wch])):
        text = body + "\n" + gen.pdb_text(extra)
        for ff in (["AMBER"] if ctx.quick else ["AMBER", "PARSE", "CHARMM"]):
            jobs.append({"what": f"5vav cyclic + {label} ff={ff}", "text": text, "args": [f"--ff={ff}"],
                         "truth": tr + truth(extra), "strands": []})
    return jobs


def truth_from_text(text, nn=False, nc=False):
    """residue ground truth read off PDB text: class by residue name, chain ends by chain identifier, TER (for records
    without identifier) and OXT (hidden ends)"""
    res, order = {}, []
    ters = 0
    for ln in text.split("\n"):
        if ln.startswith("TER"):
            ters += 1
        if not ln.startswith(("ATOM", "HETATM")):
            continue
        ch = ln[21:22].strip()
        k = (ch if ch else f"#{ters}", int(ln[22:26]), ln[26:27].strip())
        if k not in res:
            res[k] = {"name": ln[17:20].strip(), "atoms": set(), "chain": ch}
            order.append(k)
        res[k]["atoms"].add(ln[12:16].strip())
    out = []
    is_aa = lambda k: res[k]["name"] in gen.AMINO or res[k]["name"] in VARIANTS
    for i, k in enumerate(order):
        nm = res[k]["name"]
        cls = "aa" if is_aa(k) else ("wat" if nm in ("HOH", "WAT") else ("na" if nm in ("DA", "DC", "DG", "DT", "A", "C", "G", "U") else "other"))
        prev = order[i - 1] if i > 0 else None
        nxt = order[i + 1] if i + 1 < len(order) else None
        n_end = cls == "aa" and (prev is None or prev[0] != k[0] or not is_aa(prev) or bool(res[prev]["atoms"] & {"OXT", "OT2", "O''"}))
        c_end = cls == "aa" and (nxt is None or nxt[0] != k[0] or not is_aa(nxt) or bool(res[k]["atoms"] & {"OXT", "OT2", "O''"}))
        out.append({"key": [res[k]["chain"], k[1], k[2]], "name": nm, "cls": cls, "n": n_end, "c": c_end, "nn": nn, "nc": nc})
    return out


def _pipe_job(job):
    from .. import runner

    wd = os.path.join(core.VERIF, ".work", f"c02-{os.getpid()}")
    os.makedirs(wd, exist_ok=True)
    open(os.path.join(wd, "in.pdb"), "w").write(job["text"])
    if job.get("prerun") is not None:
        # two-run history: protonate, write the model as PDB, give that to the run under test
        r0 = runner.run(job["prerun"] + [f"--pdb-output={os.path.join(wd, 'pre_H.pdb')}", os.path.join(wd, "in.pdb"), os.path.join(wd, "pre.pqr")])
        if not r0["ok"]:
            shutil.rmtree(wd, ignore_errors=True)
            return {"ok": False, "exc": "prerun:" + str(r0["exc_type"]), "msg": "", "res": [], "total": 0, "strands": []}
        lines = []
        for ln in open(os.path.join(wd, "pre_H.pdb")).read().split("\n"):
            if ln.startswith(("ATOM", "HETATM")) and ln[17:20] in job.get("rename", {}):
                ln = ln[:17] + job["rename"][ln[17:20]] + ln[20:]
            if ln.startswith(("ATOM", "HETATM")) and [ln[21:22].strip(), int(ln[22:26]), ln[12:16].strip()] in job.get("delete", []):
                continue
            lines.append(ln)
        open(os.path.join(wd, "in.pdb"), "w").write("\n".join(lines))
    r = runner.run(job["args"] + [os.path.join(wd, "in.pdb"), os.path.join(wd, "o.pqr")])
    out = {"ok": r["ok"], "exc": r["exc_type"], "msg": str(r["exc"])[:100] if r["exc"] else "", "res": [], "total": 0, "strands": []}
    if r["ok"]:
        missed = set(id(a) for a in (r["missed"] or []))
        # residues of the returned model in input order (serial of the first input atom is not kept; use number+icode+position)
        byk = {}
        for res in r["bio"].residues:
            byk.setdefault((res.res_seq, res.ins_code), []).append(res)
        used = set()
        for t in job["truth"]:
            cands = [x for x in byk.get((t["key"][1], t["key"][2]), []) if id(x) not in used and
                     (x.name == t["name"] or (t["name"] == "HOH" and x.name in ("WAT", "HOH")) or BASE_OF.get(t["name"]) == x.name or x.name in VARIANTS)]
            if not cands:
                out["res"].append(dict(t, full=False, q=0, found=False))
                continue
            x = cands[0]
            used.add(id(x))
            full = not any(id(a) in missed for a in x.atoms)
            q = sum(a.ffcharge for a in x.atoms if id(a) not in missed and a.ffcharge is not None)
            out["res"].append(dict(t, full=full, q=int(round(q * 10000)), found=True, ffname=getattr(x, "ffname", "")))
        for s in job["strands"]:
            rs = [x for x in r["bio"].residues if x.chain_id == s["chain"]]
            full = not any(id(a) in missed for x in rs for a in x.atoms)
            q = sum(a.ffcharge for x in rs for a in x.atoms if id(a) not in missed and a.ffcharge is not None)
            out["strands"].append({"len": s["len"], "q": int(round(q * 10000)), "full": full})
        tot = 0
        for ln in open(os.path.join(wd, "o.pqr")).read().split("\n"):
            if ln.startswith(("ATOM", "HETATM")):
                tot += int(round(float(ln[54:62]) * 10000))
        out["total"] = tot
    shutil.rmtree(wd, ignore_errors=True)
    return out


def run(ctx):
    rng = random.Random(ctx.seed)
    ctx.rule = ("unit level: every chain configuration TLC emits (amino runs <= 5 with OXT anywhere, nucleotide runs <= 3, "
                "hetero tails, caps, two chains, cyclic flag, neutral options); pipeline level: ALA tripeptides carrying every "
                "residue type / named variant at each position x force fields, neutral termini, DNA/RNA strands, multi-chain "
                "inputs with numbering offsets, three peptides under one chain id, the cyclic peptide.  Distinct = distinct "
                "configuration / (structure, options); non-trivial = has a chain end that is not the first/last residue of "
                "the file, or a charged/variant residue")
    ctx.assumptions += ["a segment is a maximal run of amino acids (nucleotides) of one input chain, cut after a residue "
                        "carrying OXT (marked 3'); a cap (NME) suppresses the C-terminus; peptide caps after nucleotides or "
                        "after a residue with OXT are not judged", "formal charges: ASP/GLU/CYM/TYM -1, LYS/ARG/HIP +1, others 0, "
                        "+1 charged N-terminus, -1 charged C-terminus; only fully parameterised residues are judged",
                        "unit-level cyclic inputs fake the N-C closeness by moving one atom; the pipeline level uses 5vav"]
    ctx.trusted += ["vlib/checks/c02.py (concretisation, residue matching, charge sums)", "vlib/gen.py", "TLC 1.8"]
    cfg = os.path.join(ctx.work, "t.cfg")
    maxa, maxs = (4, 2) if ctx.quick else (7, 3)
    open(cfg, "w").write(f"SPECIFICATION Spec\nCONSTANTS\n  Cases <- AllCases\n  MaxA = {maxa}\n  MaxS = {maxs}\n  Emit = FALSE\n"
                         "INVARIANT TerminiOncePerEnd\nINVARIANT NoCrash\n")
    r = core.run_tlc("MC_Termini", cfg, ctx.work, timeout=1200)
    core.need_ok(r, "MC_Termini")
    ctx.add_tlc(r, "all chain configurations")
    if r.invariant:
        ctx.violation({"clause": "model:" + r.invariant}, f"the Termini model violates {r.invariant}", {"tlc": r.out[-2500:]})
    open(cfg, "w").write(f"SPECIFICATION Spec\nCONSTANTS\n  Cases <- AllCases\n  MaxA = {maxa}\n  MaxS = {maxs}\n  Emit = TRUE\nINVARIANT EmitInv\n")
    r = core.run_tlc("MC_Termini", cfg, ctx.work, workers=8, timeout=1200)
    core.need_ok(r, "MC_Termini emit")
    ctx.add_tlc(r, "case emission")
    cases = [json.loads(v[1:]) for v in r.printed if isinstance(v, str) and v.startswith("@")]
    if len(cases) < 1000:
        raise core.MachineryError(f"emitted {len(cases)} cases")
    ctx.exhaustive = True
    chunks = [cases[i:i + 60] for i in range(0, len(cases), 60)]
    obs = core.pmap(_unit_job, [[c["cs"] for c in ch] for ch in chunks], chunksize=1)
    traces = []
    for ch, ob in zip(chunks, obs):
        for c, o in zip(ch, ob):
            traces.append({"id": len(traces) + 1, "kind": "flags", "cs": c["cs"], "obs": o["obs"], "err": o["err"], "res": [],
                           "total": 0, "strands": [], "what": f"chains {[[c['cs']['kind'][r-1] for r in chn] for chn in c['cs']['chains']]} "
                                                                f"cyc={c['cs']['cyc']} nn={c['cs']['nn']} nc={c['cs']['nc']}", "text": o["text"]})
            ctx.evaluations += 1
            kinds = c["cs"]["kind"]
            if any(k in ("AO", "N3") for k in kinds[:-1]) or len(c["cs"]["chains"]) > 1 or c["cs"]["cyc"]:
                ctx.nontrivial.add(json.dumps(c["cs"], sort_keys=True))
    jobs = corpus(ctx, rng)
    pres = core.pmap(_pipe_job, jobs, chunksize=2)
    nfail = 0
    for j, o in zip(jobs, pres):
        ctx.evaluations += 1
        if not o["ok"]:
            nfail += 1
            if len(ctx.drift) < 25:
                ctx.drift.append({"what": j["what"], "run_failed": o["exc"], "msg": o["msg"]})
            continue
        ctx.nontrivial.add(j["what"])
        traces.append({"id": len(traces) + 1, "kind": "charge", "cs": {"kind": ["W"], "chains": [[1]], "cyc": [], "nn": False, "nc": False},
                       "obs": [], "err": "", "res": [{k: x[k] for k in ("name", "cls", "n", "c", "full", "q", "nn", "nc")} for x in o["res"]],
                       "total": o["total"], "strands": o["strands"], "what": j["what"], "detail": o["res"]})
    ctx.extra["pipeline_runs"] = len(jobs)
    ctx.extra["pipeline_runs_failed"] = nfail
    tf = core.write_json(os.path.join(ctx.work, "tr.json"),
                         [{k: t[k] for k in ("id", "kind", "cs", "obs", "err", "res", "total", "strands")} for t in traces])
    open(cfg, "w").write("SPECIFICATION TSpec\nCONSTANTS\n  Cases = {}\n  Emit = FALSE\nINVARIANT Report\n")
    r = core.run_tlc("TerminiTrace", cfg, ctx.work, workers=8, env={"TRACE_FILE": tf}, timeout=1200, heap="8g")
    core.need_ok(r, "TerminiTrace")
    ctx.add_tlc(r, "trace validation")
    got = {v[1]: v for v in r.printed if isinstance(v, list) and v and v[0] == "T"}
    if len(got) != len(traces):
        raise core.MachineryError(f"{len(got)} verdicts for {len(traces)} traces; {r.unparsed[:2]} {r.out[-600:]}")
    ctx.traces += len(traces)
    for t in traces:
        _, _, acc, bad = got[t["id"]]
        if t["kind"] == "flags":
            for b in bad:
                kinds = t["cs"]["kind"]
                nseg = sum(1 for k in kinds if k == "AO")
                ctx.violation({"clause": b[0], "hidden_ends": min(nseg, 3), "nchains": len(t["cs"]["chains"]), "err": t["err"]},
                              f"{t['what']}: observed flags {t['obs']} err={t['err']} ({b})", {"case": t["cs"], "observed": t["obs"], "pdb": t["text"]})
            if not acc and not bad and len(ctx.drift) < 40:
                ctx.drift.append({"what": t["what"], "observed": t["obs"], "err": t["err"]})
        else:
            for b in bad:
                d = t["detail"][b[1] - 1] if b[0] in ("ChargeIsFormal", "WaterNeutral") and b[1] >= 1 else {}
                ctx.violation({"clause": b[0], "name": d.get("name"), "position": ("N" if d.get("n") else "") + ("C" if d.get("c") else "") or "I",
                               "ff": t["what"].split("ff=")[-1][:8] if "ff=" in t["what"] else "PARSE"},
                              f"{t['what']}: {b[0]} {d or t['strands']} total={t['total']}", {"what": t["what"], "residues": t["detail"]})
    f0 = [t for t in traces if t["kind"] == "flags"]
    ctx.sample({"what": f0[len(f0) // 2]["what"], "observed_flags": f0[len(f0) // 2]["obs"]})
    c0 = [t for t in traces if t["kind"] == "charge"]
    if c0:
        ctx.sample({"what": c0[0]["what"], "residues": c0[0]["detail"]})
