"""C07 - every coordinate record of the first model of a PDB input is ingested.

(M) TLC explores every file up to MaxLen lines over the alphabet of MC_PdbReader and checks
    AllIngested on the reader model whose deviation constants describe the current code.
(R) every TLC-generated file is written to disk and read by the real io.get_molecule /
    main.drop_water / main.setup_molecule; the projection must equal the model's result;
(T) mismatches and a seeded sample (plus perturbed excerpts of the repository's PDB files) are
    validated by TLC against PdbReaderTrace, which also evaluates the C07 clauses on the
    observed result.
"""
import json
import os
import random

from .. import core

LEVEL = "model_checking"
WIDE = 10000  # serial offset of the "wide" rendering variant (serial fills columns 7-11)

# Deviation constants that describe the *current* tree (see DESIGN.md, C07).
DEVIANT = {"BlankStops": "TRUE", "EndEmptyRaises": "TRUE", "GluedKeepsWater": "TRUE", "EmptyModelContinues": "TRUE"}
CODE_CONSTS = {"BlankStops": "FALSE", "EndEmptyRaises": "FALSE", "GluedKeepsWater": "FALSE", "EmptyModelContinues": "FALSE"}
if os.environ.get("VERIF_C07_MODEL") == "deviant":  # experimentation only
    CODE_CONSTS = DEVIANT


ALL_SYMS = list(range(1, 22))
BOOK_SYMS_QUICK = [1, 5, 12, 13, 14, 15]          # two atoms of different residues, TER, END, MODEL, ENDMDL
BOOK_SYMS_THOROUGH = [1, 4, 5, 8, 12, 13, 14, 15, 21]  # + insertion-code residue, water, MODEL without serial
CORE_SYMS = [1, 2, 3, 4, 5, 7, 8, 12, 13, 14, 15, 19, 20, 21]   # thorough: one line deeper than the full alphabet


def cfg_text(maxlen, consts, emit, inv, spec="Spec", alphabet="MCAlphabet", dw="{FALSE, TRUE}", symset=None):
    sym = "" if spec != "Spec" else "  SymSet = {" + ", ".join(str(x) for x in (symset or ALL_SYMS)) + "}\n"
    return (f"SPECIFICATION {spec}\nCONSTANTS\n  MaxLen = {maxlen}\n"
            f"  BlankStops = {consts['BlankStops']}\n  EndEmptyRaises = {consts['EndEmptyRaises']}\n"
            f"  GluedKeepsWater = {consts['GluedKeepsWater']}\n  EmptyModelContinues = {consts['EmptyModelContinues']}\n  DropWaterChoices = {dw}\n  Emit = {emit}\n{sym}INVARIANT {inv}\n")


# ------------------------------------------------------------------ concretisation
def atom_line(a, idx):
    rec = "HETATM" if a["het"] else "ATOM  "
    nm = a["nm"]
    name = nm if len(nm) == 4 else " " + nm.ljust(3)
    x, y, z = 1.5 * idx, -2.25 * idx, 0.125 * idx + 10
    fmt = a.get("fmt", "full")
    serial = idx + (WIDE if fmt == "wide" else 0)
    line = (f"{rec}{serial:5d} {name}{a['alt'] or ' '}{a['rn']:>3s} {a['ch'] or ' '}{a['rs']:4d}{a['ic'] or ' '}   "
            f"{x:8.3f}{y:8.3f}{z:8.3f}{1.0:6.2f}{10.0:6.2f}          {nm[0]:>2s}")
    if fmt == "cut66":
        line = line[:66]
    elif fmt == "cut54":
        line = line[:54]
    elif fmt == "trail":
        line = line + "      "
    elif fmt in ("full", "wide"):
        line = line.ljust(80)
    return line + ("\r\n" if fmt == "crlf" else "\n")


def render(alphabet, syms):
    out = []
    nmodel = 0
    for i, s in enumerate(syms, start=1):
        a = alphabet[s - 1]
        k = a["k"]
        if k == "atom":
            out.append(atom_line(a, i))
        elif k == "ter":
            out.append("TER\n")
        elif k == "end":
            out.append("END\n")
        elif k == "model":
            nmodel += 1
            if a.get("fmt") == "bare":
                out.append("MODEL\n" if i % 2 else f"MODEL {nmodel}\n")      # serial missing / outside its columns
            else:
                out.append(f"MODEL     {nmodel:4d}\n")
        elif k == "endmdl":
            out.append("ENDMDL\n")
        elif k == "blank":
            out.append("\n" if i % 2 else "    \n")
        elif k == "unknown":
            # a line no parser accepts: an unknown record name, or a coordinate record cut off before its coordinates
            # (an interrupted write): it carries no atom, and must not disturb the records around it
            out.append(("FOOBAR  not a PDB record\n", "ATOM     55  N\n", "HETATM   56  O\n")[i % 3])
        elif k == "remark":
            out.append("REMARK   1 harmless remark\n")
        else:
            raise core.MachineryError(f"unknown line kind {k}")
    return "".join(out)


# ------------------------------------------------------------------ real code
_DEF = None


def observe(text, dw, path):
    """Run the real ingestion path on `text`; return the projection (same shape as the spec's res)."""
    global _DEF
    core.use_repo()
    from pdb2pqr import io as pio, main as pmain

    if _DEF is None:
        _DEF = pio.get_definitions()
    with open(path, "w", newline="") as f:
        f.write(text)
    try:
        pdblist, _is_cif = pio.get_molecule(path)
        if dw:
            pdblist = pmain.drop_water(pdblist)
        bio, _d, _l = pmain.setup_molecule(pdblist, _DEF, None)
    except Exception as e:  # loud failure is an observable outcome
        return {"err": type(e).__name__, "chains": []}
    chains = []
    for ch in bio.chains:
        chains.append({"id": ch.chain_id, "residues": [
            {"ch": r.chain_id, "rs": r.res_seq, "ic": r.ins_code, "rn": r.name,
             "atoms": [{"nm": a.name, "i": a.serial % WIDE} for a in r.atoms]} for r in ch.residues]})
    return {"err": "", "chains": chains}


def _work(args):
    alphabet, cases, wdir = args
    path = os.path.join(wdir, f"in-{os.getpid()}.pdb")
    out = []
    for c in cases:
        out.append(observe(render(alphabet, c["file"]), c["dw"], path))
    try:
        os.unlink(path)
    except OSError:
        pass
    return out


def norm(res):
    """model result and observed result compared structurally; field order irrelevant."""
    return json.dumps(res, sort_keys=True)


# ------------------------------------------------------------------ TLC trace validation
def validate(ctx, alphabet, traces, label):
    """traces: list of {id, dw, file, res}.  Returns {id: (acc, wf, clauses)}"""
    if not traces:
        return {}
    tf = core.write_json(os.path.join(ctx.work, f"traces-{label}.json"), traces)
    af = core.write_json(os.path.join(ctx.work, f"alpha-{label}.json"), alphabet)
    cfg = os.path.join(ctx.work, f"trace-{label}.cfg")
    open(cfg, "w").write(cfg_text(100000, CODE_CONSTS, "FALSE", "Report", spec="TSpec", alphabet="TraceAlphabet"))
    r = core.run_tlc("PdbReaderTrace", cfg, ctx.work, workers=1, env={"TRACE_FILE": tf, "ALPHA_FILE": af},
                     timeout=3000)
    core.need_ok(r, f"PdbReaderTrace/{label}")
    ctx.add_tlc(r, f"trace-validation {label}")
    got = {}
    for v in r.printed:
        if isinstance(v, list) and v and v[0] == "T":
            got[v[1]] = (v[2], v[3], v[4])
    if len(got) != len(traces):
        raise core.MachineryError(f"trace validation {label}: {len(got)} verdicts for {len(traces)} traces; "
                                  f"unparsed={r.unparsed[:3]} tail={r.out[-1500:]}")
    ctx.traces += len(traces)
    return got


def judge(ctx, alphabet, traces, verdicts, origin):
    for t in traces:
        acc, wf, clauses = verdicts[t["id"]]
        text = t.get("text") or render(alphabet, t["file"])
        kinds = [alphabet[s - 1]["k"] for s in t["file"]]
        if wf and clauses:
            for cl in clauses:
                key = {"clause": cl, "err": t["res"]["err"], "trigger": trigger(kinds, t["res"])}
                ctx.violation(key, f"{origin}: file kinds={kinds} dw={t['dw']} observed={json.dumps(t['res'])[:300]}",
                              {"dw": t["dw"], "file": t["file"], "text": text, "observed": t["res"], "origin": origin})
        elif not acc:
            ctx.drift.append({"origin": origin, "file": t["file"], "dw": t["dw"], "wf": wf,
                              "observed": json.dumps(t["res"])[:200]})


def trigger(kinds, res):
    """structural cause used to identify a finding: which bookkeeping kinds are present"""
    special = sorted(set(k for k in kinds if k not in ("atom", "remark")))
    return "+".join(special) or "atoms-only"


# ------------------------------------------------------------------ real-file excerpts (T leg)
def excerpts(ctx, rng):
    """Perturbed excerpts of the repository's PDB files as traces over their own alphabet."""
    import glob

    files = sorted(glob.glob(os.path.join(core.REPO, "tests", "data", "*.pdb")))
    n_ex = 3 if ctx.quick else len(files)
    rng.shuffle(files)
    jobs = []
    for path in files[:n_ex]:
        lines = [ln.rstrip("\n") for ln in open(path, errors="replace")]
        coord = [ln for ln in lines if ln.startswith(("ATOM", "HETATM"))]
        if len(coord) < 30:
            continue
        start = rng.randrange(0, max(1, len(coord) - 30))
        base = coord[start:start + 24]
        jobs.append((os.path.basename(path), base))
    out = []
    for name, base in jobs:
        for pert in ("none", "blank-mid", "blank-ws", "crlf", "cut54", "cut66", "leading-model",
                     "end-end", "two-models", "ter-mid", "remark-mid", "unknown-mid", "end-blank-tail"):
            out.append((name, pert, perturb(base, pert)))
    return out


def perturb(base, pert):
    """returns list of raw text lines (with endings)"""
    L = [b + "\n" for b in base]
    mid = len(L) // 2
    if pert == "blank-mid":
        L.insert(mid, "\n")
    elif pert == "blank-ws":
        L.insert(mid, "      \n")
    elif pert == "crlf":
        L = [b + "\r\n" for b in base]
    elif pert == "cut54":
        L = [b[:54] + "\n" for b in base]
    elif pert == "cut66":
        L = [b[:66] + "\n" for b in base]
    elif pert == "leading-model":
        L = ["MODEL        1\n"] + L + ["ENDMDL\n"]
    elif pert == "end-end":
        L = L + ["END\n", "END\n"]
    elif pert == "two-models":
        L = ["MODEL        1\n"] + L + ["ENDMDL\n", "MODEL        2\n"] + L[:6] + ["ENDMDL\n", "END\n"]
    elif pert == "ter-mid":
        L.insert(mid, "TER\n")
    elif pert == "remark-mid":
        L.insert(mid, "REMARK 300 something in the middle\n")
    elif pert == "unknown-mid":
        L.insert(mid, "XYZZY  unknown record\n")
    elif pert == "end-blank-tail":
        L = L + ["END\n", "\n"]
    return L


def abstract_line(raw):
    """Independent column reader: raw text line -> abstract line record of the spec's alphabet."""
    s = raw.rstrip("\r\n")
    o = {"k": "", "het": False, "ch": "", "rs": 0, "ic": "", "nm": "", "alt": "", "rn": "", "fmt": "full"}
    rec = s[:6].strip()
    if s.strip() == "":
        o["k"] = "blank"
    elif rec in ("ATOM", "HETATM"):
        o.update(k="atom", het=(rec == "HETATM"), nm=s[12:16].strip(), alt=s[16:17].strip(),
                 rn=s[17:20].strip(), ch=s[21:22].strip(), rs=int(s[22:26]), ic=s[26:27].strip())
    elif rec == "TER":
        o["k"] = "ter"
    elif rec == "END":
        o["k"] = "end"
    elif rec == "MODEL":
        o["k"] = "model"
    elif rec == "ENDMDL":
        o["k"] = "endmdl"
    elif rec == "XYZZY":
        o["k"] = "unknown"
    else:
        o["k"] = "remark"
    return o


def _work_ex(args):
    name, pert, lines, wdir = args
    # serial numbers are rewritten to the line index so that atoms can be traced to lines
    text = []
    for i, ln in enumerate(lines, start=1):
        if ln.startswith(("ATOM", "HETATM")):
            ln = ln[:6] + f"{i:5d}" + ln[11:]
        text.append(ln)
    path = os.path.join(wdir, f"ex-{os.getpid()}.pdb")
    res = observe("".join(text), False, path)
    try:
        os.unlink(path)
    except OSError:
        pass
    return res, "".join(text)


def explore(ctx, rng, symset, maxlen, label):
    # (M) model checking: the model of the current code satisfies the property ...
    cfg = os.path.join(ctx.work, "mc.cfg")
    open(cfg, "w").write(cfg_text(maxlen, CODE_CONSTS, "FALSE", "AllIngested", symset=symset))
    r = core.run_tlc("MC_PdbReader", cfg, ctx.work, timeout=3000)
    core.need_ok(r, "MC_PdbReader/current")
    ctx.add_tlc(r, f"model of current code, {label}, MaxLen={maxlen}")
    if r.invariant:
        # the model of the code as written violates C07: every such file is replayed below
        ctx.extra["model_violation"] = r.invariant
    # ... and the invariant is not vacuous: with the historical deviations switched on TLC must find it
    open(cfg, "w").write(cfg_text(3, DEVIANT, "FALSE", "AllIngested", symset=symset))
    r2 = core.run_tlc("MC_PdbReader", cfg, ctx.work, timeout=600)
    if r2.invariant != "AllIngested":
        raise core.MachineryError("self-test failed: deviant reader model does not violate AllIngested")
    ctx.add_tlc(r2, "deviant model (BlankStops, EndEmptyRaises): violation found as required")

    # (R) emission of every file with the model's result
    open(cfg, "w").write(cfg_text(maxlen, CODE_CONSTS, "TRUE", "EmitInv", symset=symset))
    r3 = core.run_tlc("MC_PdbReader", cfg, ctx.work, workers=8, timeout=3000, heap="6g")
    core.need_ok(r3, "MC_PdbReader/emit")
    ctx.add_tlc(r3, f"emission of cases, {label}")
    alphabet = None
    cases = []
    for v in r3.printed:
        if isinstance(v, str) and v.startswith("@A"):
            alphabet = json.loads(v[2:])
        elif isinstance(v, str) and v.startswith("@"):
            cases.append(json.loads(v[1:]))
    if not alphabet or len(cases) < 100:
        raise core.MachineryError(f"emission produced {len(cases)} cases")
    want = 2 * sum(len(symset) ** k for k in range(maxlen + 1))
    if len(cases) != want:
        raise core.MachineryError(f"emission incomplete: {len(cases)} finished files, expected {want}")
    ctx.exhaustive = True
    # replay into the real code
    chunks = [cases[i:i + 400] for i in range(0, len(cases), 400)]
    results = core.pmap(_work, [(alphabet, ch, ctx.work) for ch in chunks], chunksize=1)
    observed = [o for chunk in results for o in chunk]
    ctx.evaluations += len(cases)
    mismatch, sample = [], []
    for n, (c, o) in enumerate(zip(cases, observed)):
        kinds = [alphabet[s - 1]["k"] for s in c["file"]]
        if c["wf"] and "atom" in kinds and (len(set(kinds)) > 1 or len(kinds) > len(set(c["file"]))
                                            or any(s in (2, 3, 4, 7, 10, 11, 19, 20) for s in c["file"])):
            ctx.nontrivial.add((c["dw"], tuple(c["file"])))
        t = {"id": n, "dw": c["dw"], "file": c["file"], "res": o}
        if norm(o) != norm(c["res"]):
            mismatch.append(t)
        elif c["bad"]:
            # the code does what the model says, and TLC found the model's result to violate C07
            mismatch.append(t)
    n_sample = (1500 if ctx.quick else 6000) // (1 if symset == ALL_SYMS else 3)
    idxs = rng.sample(range(len(cases)), min(n_sample, len(cases)))
    sample = [{"id": n, "dw": cases[n]["dw"], "file": cases[n]["file"], "res": observed[n]} for n in idxs]
    ctx.extra["replayed_cases"] = ctx.extra.get("replayed_cases", 0) + len(cases)
    ctx.extra["model_mismatches"] = ctx.extra.get("model_mismatches", 0) + len(mismatch)
    for c in (cases[len(cases) // 3], cases[-1]):
        ctx.sample({"dw": c["dw"], "file_kinds": [alphabet[s - 1]["k"] for s in c["file"]],
                    "text": render(alphabet, c["file"]), "model_result": c["res"]})
    todo = {t["id"]: t for t in mismatch[:20000] + sample}
    traces = list(todo.values())
    verdicts = validate(ctx, alphabet, traces, "generated-" + label)
    judge(ctx, alphabet, traces, verdicts, "generated")
    # a sampled, accepted trace must be accepted by TLC too (exercises the judging path)
    for t in sample:
        acc, wf, clauses = verdicts[t["id"]]
        if not acc and norm(t["res"]) == norm(cases[t["id"]]["res"]):
            raise core.MachineryError("TLC rejected a trace that equals the model's own result")



# ------------------------------------------------------------------ main
def run(ctx):
    rng = random.Random(ctx.seed)
    maxlen = 4
    ctx.rule = ("TLC enumerates every file of <= 4 lines over the 21-symbol alphabet of MC_PdbReader (thorough: also <= 5 lines over 14 of "
                "the symbols), and of <= 6 lines over the record-bookkeeping sub-alphabet (6 / 9 symbols), x "
                "{drop-water on, off}; each is rendered to PDB text and read by the real get_molecule/"
                "drop_water/setup_molecule.  Non-trivial = well-formed file with at least one coordinate line "
                "and at least one non-coordinate line or duplicate/alternate/insertion/blank-chain atom; "
                "distinct = distinct (dw, file).")
    ctx.assumptions += [
        "WellFormed(file): MODEL/ENDMDL alternate starting with MODEL; no coordinate line outside a model when "
        "models are used; END only after the last coordinate line; coordinate lines of one residue contiguous",
        "records without chain id are separated into chains by TER (EffChain)",
        "rendering of abstract lines to PDB text is done by the harness (columns per the wwPDB format)",
    ]
    ctx.trusted += ["vlib/checks/c07.py render/observe/abstract_line", "TLC 1.8", "Json community module"]

    explore(ctx, rng, ALL_SYMS, maxlen, "full alphabet")
    if not ctx.quick:
        explore(ctx, rng, CORE_SYMS, 5, "core alphabet (14 symbols)")
    # the record-bookkeeping sub-alphabet (atoms of two residues, TER, END, MODEL, ENDMDL) two lines deeper
    explore(ctx, rng, BOOK_SYMS_QUICK if ctx.quick else BOOK_SYMS_THOROUGH, 6, "bookkeeping sub-alphabet")

    # (T) perturbed excerpts of real files
    ex = excerpts(ctx, rng)
    exres = core.pmap(_work_ex, [(n, p, ls, ctx.work) for n, p, ls in ex])
    alpha, extr = [], []
    for k, ((name, pert, lines), (res, text)) in enumerate(zip(ex, exres)):
        off = len(alpha)
        alpha += [abstract_line(ln) for ln in lines]
        # serial numbers were rewritten to the line index within the excerpt: shift to alphabet index
        for chn in res["chains"]:
            for rr in chn["residues"]:
                for a in rr["atoms"]:
                    pass
        extr.append({"id": k, "dw": False, "file": list(range(off + 1, off + len(lines) + 1)), "res": res,
                     "text": text, "origin": f"excerpt {name} perturbation={pert}"})
        ctx.evaluations += 1
        ctx.nontrivial.add(("excerpt", name, pert))
    v = validate(ctx, alpha, extr, "excerpts")
    for t in extr:
        judge(ctx, alpha, [t], v, t["origin"])
    if ex:
        ctx.sample({"excerpt": ex[1][0], "perturbation": ex[1][1], "first_lines": ex[1][2][:3]})


def replay(ctx, path):
    d = json.load(open(path))
    c = d["case"]
    core.use_repo()
    res = observe(c["text"], c["dw"], os.path.join(ctx.work, "replay.pdb"))
    print("observed now:", json.dumps(res)[:1000])
    print("recorded    :", json.dumps(c["observed"])[:1000])
    ctx.evaluations = 1
