"""C05 - atoms added by pdb2pqr have template-consistent bonded geometry.

(M/T) construction paths: for every amino-acid / nucleotide residue of every traced run, the state at the start of
      add_hydrogens (topology order, bonds, atoms present, peptide neighbours) is a case of Placement.tla; TLC replays the
      loop (tetrahedral paths by the parent's current bond count, else three-point fit on the first three available
      atoms of get_nearest_bonds) and must reproduce the observed sequence of (hydrogen, path, reference atoms); the
      clause TemplateDetermined (the parent takes part in every construction; every hydrogen is placed) is judged on the
      observation.
(T)   geometry: every added atom (hydrogens, rebuilt heavy atoms) of the final model is measured against its patched
      topology template: bond length to the parent, angles to the parent's other neighbours, still attached, no
      coincidence; the allowance is derived from an independent superposition (numpy SVD) of the template on the input
      atoms around the parent, so that distortion already present in the input is allowed and nothing else.
"""
import json
import math
import os
import random
import shutil

import numpy as np

from .. import core, gen

LEVEL = "model_checking"
DATA = os.path.join(core.REPO, "tests", "data")


def kabsch_residual(tpl, act):
    """max residual of the optimal proper superposition of template points on actual points"""
    A = np.array(tpl, dtype=float)
    Bm = np.array(act, dtype=float)
    ca, cb = A.mean(axis=0), Bm.mean(axis=0)
    H = (A - ca).T @ (Bm - cb)
    U, S, Vt = np.linalg.svd(H)
    d = np.sign(np.linalg.det(Vt.T @ U.T))
    D = np.diag([1.0, 1.0, d])
    R = Vt.T @ D @ U.T
    res = (R @ (A - ca).T).T + cb - Bm
    return float(np.max(np.linalg.norm(res, axis=1)))


def _angle(a, b, c):
    v1, v2 = np.array(a) - np.array(b), np.array(c) - np.array(b)
    cs = float(np.dot(v1, v2) / (np.linalg.norm(v1) * np.linalg.norm(v2) + 1e-12))
    return math.degrees(math.acos(max(-1.0, min(1.0, cs))))


def corpus(ctx, rng):
    from .c03 import environments, damaged
    jobs = []
    ffs = gen.FORCE_FIELDS
    k = 0
    for x in gen.AMINO:
        for pos in range(3):
            seq = ["ALA", "ALA", "ALA"]
            seq[pos] = x
            jobs.append({"what": f"{'-'.join(seq)}", "text": gen.pdb_text([gen.peptide(seq) + gen.water((6, 14, 4), resseq=101)]),
                         "args": [f"--ff={ffs[k % 6]}"] + [[], ["--noopt"], ["--nodebump"]][k % 3]})
            k += 1
            if not ctx.quick or (gen.AMINO.index(x) + pos + ctx.seed) % 4 == 0:
                # one side-chain heavy atom removed: rebuilt by repair_heavy
                heavy = gen.peptide(seq)
                side = [a["name"] for a in heavy if a["res_index"] == pos and a["name"] not in ("N", "CA", "C", "O", "OXT")]
                for nm in (side if not ctx.quick else side[-1:]):
                    jobs.append({"what": f"{'-'.join(seq)} without {nm}", "text": gen.pdb_text([gen.peptide(seq, omit={(pos, nm)})]),
                                 "args": [f"--ff={ffs[k % 6]}"]})
    for rep in range(2 if ctx.quick else 25):
        for name, chains in environments(rng):
            jobs.append({"what": f"env {name}#{rep}", "text": gen.pdb_text(chains), "args": ["--ff=AMBER"]})
    for name, chains in damaged(rng):
        jobs.append({"what": name, "text": gen.pdb_text(chains), "args": ["--ff=PARSE"]})
    # a carbon of another chain pressed against the group that will carry hydrogens (not a hydrogen-bond acceptor: the
    # debumper has to turn the group, terminal -NH3+/-OH/-CH3 torsions included)
    for x in gen.AMINO:
        wantp = gen.POLAR_PARENTS.get(x, []) + [None]
        for rep in range(10 if ctx.quick else 30):
            for pn in wantp:
                if pn is None and rep % 3:
                    continue
                got = gen.carbon_contact(rng, x, parent=pn, axial=bool(pn) and rep % 5 != 4)
                if got:
                    jobs.append({"what": got[1], "text": gen.pdb_text(got[0]), "args": [f"--ff={ffs[k % 6]}"] + ([] if k % 4 else ["--noopt"])})
                    k += 1
    # inputs that already carry their hydrogens, with a titration method (hydrogens are stripped and built again after the
    # first debump pass) and without
    tit = ["--titration-state-method=propka"]
    for rep in range(8 if ctx.quick else 60):
        seq = [rng.choice(gen.AMINO) for _ in range(rng.randint(3, 6))]
        seq[rng.randrange(len(seq))] = rng.choice(["ASN", "GLN", "HIS", "LYS", "ARG", "MET", "GLU", "SER"])
        chains, what = gen.protonated_with_clashes(rng, seq)
        jobs.append({"what": what, "text": gen.pdb_text(chains), "args": [f"--ff={ffs[rep % 6]}"] + (tit + [f"--with-ph={rng.choice([5, 7, 9])}"] if rep % 4 != 3 else [])})
    # ... and as a history: the hydrogen-bond environments and a structure run once, their output run again with a titration method
    for rep in range(1 if ctx.quick else 6):
        for name, chains in environments(rng):
            jobs.append({"what": f"env {name}#{rep} run twice, the second time titrated", "text": gen.pdb_text(chains), "pre": ["--ff=AMBER", "--noopt"],
                         "args": ["--ff=AMBER"] + tit + [f"--with-ph={rng.choice([6, 7, 8])}"]})
    for f in (["1AJJ.pdb"] if ctx.quick else ["1AJJ.pdb", "1AFS.pdb", "1BX8.pdb", "cterm_hid.pdb"]):
        jobs.append({"what": f"{f} run twice, the second time titrated", "text": open(os.path.join(DATA, f)).read(), "pre": ["--ff=AMBER", "--noopt"],
                     "args": ["--ff=AMBER"] + tit + ["--with-ph=7"]})
    from .. import corpus as shared
    jobs += shared.variants(ctx.quick, rng)
    for kind, s in (("D", "ACGT"), ("R", "ACGU")):
        jobs.append({"what": f"strand {kind}", "text": gen.pdb_text([gen.nucleic(s, kind)]), "args": ["--ff=AMBER"]})
    # a real structure with side chains cut after CB (rebuilt atoms clash, both debump passes act)
    lines = open(os.path.join(DATA, "1AJJ.pdb")).read().split("\n")
    resids = sorted(set((ln[21], ln[22:27]) for ln in lines if ln.startswith("ATOM") and ln[17:20] not in ("GLY", "ALA", "PRO")))
    rng.shuffle(resids)
    for rid in resids[:(10 if ctx.quick else len(resids))]:
        cut = [ln for ln in lines if not (ln.startswith("ATOM") and (ln[21], ln[22:27]) == rid and ln[12:16].strip() not in ("N", "CA", "C", "O", "CB"))]
        jobs.append({"what": f"1AJJ side chain {rid[0]}{rid[1].strip()} cut after CB", "text": "\n".join(cut), "args": ["--ff=AMBER"]})
    for f in (["1AJJ.pdb", "cterm_hid.pdb"] if ctx.quick else sorted(os.path.basename(f) for f in __import__("glob").glob(os.path.join(DATA, "*.pdb")))):
        jobs.append({"what": f, "text": open(os.path.join(DATA, f)).read(), "args": ["--ff=AMBER"]})
    return jobs


def _job(job):
    from .. import runner

    core.use_repo()
    from pdb2pqr import aa, na
    wd = os.path.join(core.VERIF, ".work", f"c05-{os.getpid()}")
    os.makedirs(wd, exist_ok=True)
    open(os.path.join(wd, "in.pdb"), "w").write(job["text"])
    if job.get("pre") is not None:
        # a history of two runs: the structure pdb2pqr wrote (all hydrogens present) is the input of the run that is judged
        r0 = runner.run(job["pre"] + [f"--pdb-output={os.path.join(wd, 'pre.pdb')}", os.path.join(wd, "in.pdb"), os.path.join(wd, "pre.pqr")])
        if not r0["ok"] or not os.path.exists(os.path.join(wd, "pre.pdb")):
            shutil.rmtree(wd, ignore_errors=True)
            return {"ok": False, "exc": "first run: " + r0["exc_type"], "paths": [], "geo": []}
        shutil.copy(os.path.join(wd, "pre.pdb"), os.path.join(wd, "in.pdb"))
    r = runner.run(job["args"] + [os.path.join(wd, "in.pdb"), os.path.join(wd, "o.pqr")], groups={"atoms", "stages", "placement", "log"})
    tr = r["tracer"]
    out = {"ok": r["ok"], "exc": r["exc_type"], "paths": [], "geo": []}
    if r["ok"]:
        # ---- construction paths per residue
        def observed(e, snap):
            # the construction path, from the call stack and the recorded superposition (not from one fixed frame position,
            # so that a helper extracted between the loop and create_atom does not change the reading)
            frs = e.get("frs") or []
            fit = e.get("fit")
            acts = list((fit or {}).get("acts", []))
            if any(f.endswith("rebuild_tetrahedral") for f in frs):
                path = "tet-two-point" if (fit and fit["n"] == 2) else "tet-rotate"
                refs = [_name_of(snap, c) for c in fit["def"][:2]] if path == "tet-two-point" else []
                acts = acts[:2] if path == "tet-two-point" else []
            elif fit and fit["n"] == 3:
                path = "fit3"
                refs = [_name_of(snap, c) for c in fit["def"][:3]]
                acts = acts[:3]
            else:
                path, refs, acts = "other:" + (frs[1] if len(frs) > 1 else ""), [], []
            return {"name": e["name"], "path": path, "refs": refs, "acts": acts}

        def case_of(snap, mode):
            return {"order": snap["order"], "bonds": snap["bonds"], "present": snap["present"], "nplus": snap["nplus"],
                    "cminus": snap["cminus"], "amino": snap["amino"], "skip": snap["skip"], "label": snap["res"], "mode": mode,
                    "missing": snap.get("missing", []), "geonplus": snap["geo_nplus"], "geocminus": snap["geo_cminus"]}
        new_by_res = {"AddH": {}, "Repair": {}}
        for e in tr.events:
            if e.get("e") == "new" and e.get("stage") in new_by_res:
                new_by_res[e["stage"]].setdefault(e["res"], []).append(e)
        for snap in tr.addh_snapshots:
            pending = {}
            for e in new_by_res["AddH"].get(snap["res"], []):
                pending[e["name"]] = observed(e, snap)
            seq = []
            for nm in snap["order"]:
                if not nm.startswith("H") or nm in snap["present"] or nm in snap["skip"]:
                    continue
                # hydrogens of the topology that were neither present nor created: the construction failed
                seq.append(pending.pop(nm) if nm in pending else {"name": nm, "path": "fail", "refs": [], "acts": []})
            seq += list(pending.values())       # anything created outside the topology's hydrogens
            out["paths"].append({"cs": case_of(snap, "addh"), "obs": seq})
        for snap in tr.repair_snapshots:
            out["paths"].append({"cs": case_of(snap, "rebuild"), "obs": [observed(e, snap) for e in new_by_res["Repair"].get(snap["res"], [])]})
        # residual of the superposition that constructed each added atom (own SVD on the recorded arguments)
        fitres = {}
        for e in tr.events:
            if e.get("e") == "new" and e.get("fit"):
                f = e["fit"]
                try:
                    if f["n"] >= 3:
                        fitres[e["a"]] = kabsch_residual(f["def"][:f["n"]], f["ref"][:f["n"]])
                    elif f["n"] == 2:
                        fitres[e["a"]] = abs(float(np.linalg.norm(np.array(f["def"][0]) - np.array(f["def"][1])))
                                             - float(np.linalg.norm(np.array(f["ref"][0]) - np.array(f["ref"][1])))) / 2
                except Exception:
                    pass
        # an atom made from another added atom (the carboxylic-acid optimiser turns the hydrogen that add_hydrogens built about
        # the C-O bond and keeps the copy under the original name) inherits the residual of that atom's superposition
        fit_by_name = {}
        for e in tr.events:
            if e.get("e") == "new" and e["a"] in fitres:
                key_ = (e["res"].split(" ", 1)[1] if " " in e["res"] else e["res"], e["name"])
                fit_by_name[key_] = max(fit_by_name.get(key_, 0.0), fitres[e["a"]])
        # ---- geometry of every added atom of the final model
        # (the "...FLIP" atoms of a flippable amide / ring are rotated copies of input atoms: moves, judged by C04)
        added_ids = set(e["a"] for e in tr.events if e.get("e") == "new" and e.get("stage") not in ("SetupMolecule", "")
                        and not e["name"].endswith("FLIP"))
        ids = tr.ids
        pneigh = tr.peptide_neighbours(r["bio"])
        for res in r["bio"].residues:
            if not isinstance(res, (aa.Amino, aa.WAT, na.Nucleic)):
                continue
            ref = res.reference
            pos = {a.name: np.array([a.x, a.y, a.z]) for a in res.atoms}
            tpl = {n: np.array([ref.map[n].x, ref.map[n].y, ref.map[n].z]) for n in ref.map}
            # peptide neighbours by distance, not by the model's peptide_c / peptide_n pointers
            cm, npl = pneigh.get(id(res), [None, None, False, False])[:2]
            if npl is not None and "N+1" in tpl:
                pos["N+1"] = np.array(npl.coords)
            if cm is not None and "C-1" in tpl:
                pos["C-1"] = np.array(cm.coords)
            given = set(a.name for a in res.atoms if ids.get(id(a)) not in added_ids) | {"N+1", "C-1"}
            for a in res.atoms:
                if ids.get(id(a)) not in added_ids or a.name not in tpl:
                    continue
                nb = [b for b in ref.map[a.name].bonds if b in pos and b in tpl]
                if not nb:
                    out["geo"].append({"name": a.name, "res": str(res), "bonddev": 0, "bondallow": 0, "angledev": 0, "angleallow": 0,
                                       "attached": False, "mindist": 10 ** 9, "note": "no bonded atom present"})
                    continue
                x = pos[a.name]
                bonddev = angledev = 0.0
                worst = ""
                attached = True
                misfit = 0.0
                for p in nb:
                    tl = float(np.linalg.norm(tpl[a.name] - tpl[p]))
                    al = float(np.linalg.norm(x - pos[p]))
                    bonddev = max(bonddev, abs(al - tl))
                    attached = attached and al < 1.3 * tl
                    others = [n for n in ref.map[p].bonds if n != a.name and n in pos and n in tpl]
                    for n in others:
                        dv = abs(_angle(x, pos[p], pos[n]) - _angle(tpl[a.name], tpl[p], tpl[n]))
                        if dv > angledev:
                            angledev, worst = dv, f"{a.name}-{p}-{n}{'' if n in given else '(added)'}"
                    # distortion already present in the input at the parent: template star (parent + its given neighbours)
                    shell = [p] + [n for n in others if n in given]
                    if len(shell) >= 3:
                        misfit = max(misfit, kabsch_residual([tpl[n] for n in shell], [pos[n] for n in shell]))
                    elif len(shell) == 2:
                        misfit = max(misfit, abs(float(np.linalg.norm(pos[shell[0]] - pos[shell[1]])) - float(np.linalg.norm(tpl[shell[0]] - tpl[shell[1]]))) / 2)
                misfit = max(misfit, fitres.get(ids.get(id(a)), 0.0))
                if ids.get(id(a)) not in fitres:
                    rk_ = str(res).split(" ", 1)[1] if " " in str(res) else str(res)
                    misfit = max([misfit] + [v for (rk2, nm2), v in fit_by_name.items()
                                             if rk2 == rk_ and len(min(nm2, a.name, key=len)) >= 2 and abs(len(nm2) - len(a.name)) <= 1
                                             and (nm2.startswith(a.name) or a.name.startswith(nm2))])
                # "does not coincide with another atom of its residue": measured against the atoms whose distance from this
                # one is fixed by the template up to one torsion (within three bonds).  Two atoms further apart in the bond
                # graph meet only where the input conformation folds the residue on to itself (a distortion of the input,
                # seen with random side-chain torsions and --nodebump), which no placement can avoid.
                topo, frontier = {a.name}, {a.name}
                for _ in range(3):
                    frontier = set(m for f in frontier if f in ref.map for m in ref.map[f].bonds) - topo
                    topo |= frontier
                inres = set(b.name for b in res.atoms)
                others_d = [float(np.linalg.norm(x - pos[n])) for n in pos if n != a.name and n in inres and n in topo]
                tl0 = float(np.linalg.norm(tpl[a.name] - tpl[nb[0]]))
                out["geo"].append({"name": a.name, "res": str(res), "bonddev": int(round(bonddev * 1e6)),
                                   "bondallow": int(round((2 * misfit + 0.02) * 1e6)), "angledev": int(round(angledev * 1e6)),
                                   "angleallow": int(round((math.degrees(math.atan(2 * misfit / max(tl0, 0.5))) * 2 + 6.0) * 1e6)),
                                   "attached": bool(attached), "mindist": int(round(min(others_d + [99.0]) * 1e6)),
                                   "note": f"misfit {misfit:.4f} {worst}"})
    shutil.rmtree(wd, ignore_errors=True)
    return out


def _name_of(snap, coord):
    best, bd = "?", 1e-6
    for n, c in snap["refcoords"].items():
        d = max(abs(c[i] - coord[i]) for i in range(3))
        if d < bd:
            best, bd = n, d
    return best


DUMMY = {"order": [], "bonds": {"X": []}, "present": [], "nplus": False, "cminus": False, "amino": False, "skip": [], "label": "-",
         "mode": "addh", "missing": [], "geonplus": False, "geocminus": False}


def template_bonds(ctx):
    """The templates as loaded (patches applied) are the reference every added atom is judged against; Templates.tla requires
    that each bond a template lists joins atoms whose template coordinates are a covalent bond length apart (otherwise
    "template-consistent" has no meaning).  Terminus patches applied to the water template at load time (CWAT, NWAT, ...) are
    never used: terminus patches are applied to amino-acid residues only; neither is NPRO (see below)."""
    import numpy as np
    d = gen.definitions()
    bonds, labels = [], []
    for rn in sorted(d.map):
        if (rn.endswith("WAT") and rn != "WAT") or rn == "NPRO":
            # NPRO = the charged N-terminus patch applied to proline at load time (H3 falls on CD): set_termini gives an
            # N-terminal proline the two-hydrogen patch instead, so this object is never a run-time reference
            continue
        r = d.map[rn]
        for an, a in r.map.items():
            for b in a.bonds:
                if b not in r.map or an >= b:
                    continue
                o = r.map[b]
                dist = float(np.linalg.norm(np.array([a.x, a.y, a.z], dtype=float) - np.array([o.x, o.y, o.z], dtype=float)))
                bonds.append({"h": an.startswith("H") or b.startswith("H"), "s": an[0] in "SP" or b[0] in "SP",
                              "d": min(int(round(dist * 1000)), 10 ** 8), "pair": False})
                labels.append((rn, an, b, dist))
        names = sorted(r.map)
        xyz = np.array([[r.map[n].x, r.map[n].y, r.map[n].z] for n in names], dtype=float)
        for i, an in enumerate(names):
            dd = np.linalg.norm(xyz - xyz[i], axis=1)
            for j in np.nonzero(dd < 1.0)[0]:
                if j > i and names[j] not in r.map[an].bonds and an not in r.map[names[j]].bonds:
                    bonds.append({"h": False, "s": False, "d": int(round(float(dd[j]) * 1000)), "pair": True})
                    labels.append((rn, an, names[j], float(dd[j])))
    tf = core.write_json(os.path.join(ctx.work, "templates.json"), bonds)
    r = core.run_tlc("Templates", "Templates.cfg", ctx.work, workers=1, env={"TRACE_FILE": tf}, timeout=600)
    core.need_ok(r, "Templates")
    ctx.add_tlc(r, "template bonds are covalent bond lengths")
    bad = next((v[1] for v in r.printed if isinstance(v, list) and v and v[0] == "BAD"), None)
    if bad is None:
        raise core.MachineryError(f"Templates: no verdict; {r.out[-500:]}")
    ctx.extra["template_bonds"] = {"definitions": len(set(x[0] for x in labels)), "bonds": len(bonds), "outside_covalent_range": len(bad)}
    ctx.evaluations += len(bonds)
    for k in sorted(bad)[:20]:
        rn, an, b, dist = labels[k - 1]
        ctx.violation({"clause": "TemplateBondsChemical", "residue": rn, "bond": f"{an}-{b}"},
                      f"template {rn}: atoms {an} and {b}: template coordinates {dist:.3f} A apart (bonded pairs must be a covalent bond length apart, other pairs at least 0.85 A)",
                      {"residue": rn, "a": an, "b": b, "distance": dist})


def run(ctx):
    rng = random.Random(ctx.seed)
    ctx.rule = ("runs: ALA tripeptides with every residue type at each position (heavy atoms only; a side-chain atom removed), "
                "hydrogen-bond environments, missing/extra atoms, a backbone gap, strands, partly protonated input, 1AJJ with "
                "side chains cut after CB, repository structures.  Path cases = every amino/nucleic residue of every run; "
                "geometry records = every added atom of every final model.  Non-trivial = residue with at least one hydrogen "
                "placed / added atom whose parent has another neighbour")
    ctx.assumptions += ["template geometry = coordinates of the residue's patched topology object of the current tree",
                        "allowance: bond 2 x misfit + 0.02 A, angle 2 x atan(2 x misfit / bond) + 6 deg (the water template angle is 112.0, tetrahedral completion of a water gives 106.8), where misfit is the larger of the residual of the superposition that constructed the atom (recomputed from "
                        "the recorded arguments; the identity and pairing of those arguments is judged by the path clauses) and the "
                        "residual of the optimal superposition of the template star (parent and its given neighbours) on the input"]
    ctx.trusted += ["vlib/tracer.py (placement wrappers)", "vlib/checks/c05.py (measurements, numpy SVD)", "TLC 1.8"]
    template_bonds(ctx)
    jobs = corpus(ctx, rng)
    res = core.pmap(_job, jobs, chunksize=1)
    traces = []
    for jn, (j, o) in enumerate(zip(jobs, res)):
        ctx.evaluations += 1
        if not o["ok"]:
            if len(ctx.drift) < 20:
                ctx.drift.append({"what": j["what"], "run_failed": o["exc"]})
            continue
        what = f"{j['what']} {' '.join(j['args'])}"
        for p in o["paths"]:
            traces.append({"id": len(traces) + 1, "kind": "paths", "cs": p["cs"], "obs": p["obs"], "name": "", "bonddev": 0, "bondallow": 0,
                           "angledev": 0, "angleallow": 0, "attached": True, "mindist": 10 ** 9, "what": f"{what}: {p['cs']['label']}", "job": jn})
            if p["obs"]:
                ctx.nontrivial.add(traces[-1]["what"])
        for g in o["geo"]:
            traces.append({"id": len(traces) + 1, "kind": "geometry", "cs": DUMMY, "obs": [], "name": g["name"], "bonddev": g["bonddev"],
                           "bondallow": g["bondallow"], "angledev": g["angledev"], "angleallow": g["angleallow"], "attached": g["attached"],
                           "mindist": g["mindist"], "what": f"{what}: {g['res']} {g['name']} ({g['note']})", "job": jn})
            if g["note"].count("-") >= 2:        # an angle to another neighbour of the parent was measured
                ctx.nontrivial.add(traces[-1]["what"])
    ctx.extra.update(runs=len(jobs), path_cases=sum(1 for t in traces if t["kind"] == "paths"),
                     geometry_records=sum(1 for t in traces if t["kind"] == "geometry"))
    tf = core.write_json(os.path.join(ctx.work, "tr.json"), [{k: v for k, v in t.items() if k not in ("what", "job")} for t in traces])
    cfg = os.path.join(ctx.work, "p.cfg")
    open(cfg, "w").write("SPECIFICATION TSpec\nINVARIANT Report\n")
    r = core.run_tlc("PlacementTrace", cfg, ctx.work, workers=8, env={"TRACE_FILE": tf}, timeout=3000, heap="8g")
    core.need_ok(r, "PlacementTrace")
    ctx.add_tlc(r, "construction paths and geometry")
    got = {v[1]: v for v in r.printed if isinstance(v, list) and v and v[0] == "T"}
    if len(got) != len(traces):
        raise core.MachineryError(f"{len(got)} verdicts for {len(traces)} traces; {r.unparsed[:2]} {r.out[-800:]}")
    ctx.traces += len(traces)
    ndrift = 0
    for t in traces:
        _, _, acc, bad = got[t["id"]]
        for b in bad:
            resname = t["what"].split(": ")[-1].split()[0]
            if t["kind"] == "paths":
                ctx.violation({"clause": b[0], "residue": resname, "atom": b[1]}, f"{t['what']}: observed placements {t['obs']}", {"case": t["cs"], "observed": t["obs"], "args": jobs[t["job"]]["args"], "pdb": jobs[t["job"]]["text"]})
            else:
                ctx.violation({"clause": b[0], "residue": resname, "atom": b[1]},
                              f"{t['what']}: bond dev {t['bonddev']} (allow {t['bondallow']}) angle dev {t['angledev']} (allow {t['angleallow']}) micro-units, "
                              f"attached={t['attached']} mindist={t['mindist']}", {"what": t["what"], "args": jobs[t["job"]]["args"], "pdb": jobs[t["job"]]["text"]})
        if t["kind"] == "paths" and not acc:
            ndrift += 1
            if len(ctx.drift) < 25:
                ctx.drift.append({"what": t["what"], "observed": t["obs"][:6]})
    ctx.extra["path_cases_not_matching_algorithm_model"] = ndrift
    pp = [t for t in traces if t["kind"] == "paths" and t["obs"]]
    if pp:
        ctx.sample({"residue": pp[0]["what"], "present_before": pp[0]["cs"]["present"], "observed_placements": pp[0]["obs"][:4]})
    gg = [t for t in traces if t["kind"] == "geometry"]
    if gg:
        ctx.sample({k: gg[len(gg) // 2][k] for k in ("what", "bonddev", "bondallow", "angledev", "angleallow", "attached", "mindist")})
