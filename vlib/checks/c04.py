"""C04 - input coordinates are preserved; only rigid side-chain rotations move atoms.

(M/R) topology clause: for every residue type and named variant of the current topology files at N-terminal, internal and
      C-terminal position and every dihedral, the rank (set_reference_distance) and the moved set (get_moveable_names) are
      asked of the real code; TLC (Moves.tla / MovesTrace) computes both itself (acc) and judges RigidSafe on the real
      answer: no backbone / terminal-cap atom moves, no bond is cut off the rotation axis.
(T)   rigidity clause: every real set_dihedral_angle (debump steps, flips) in traced runs of clash / hydrogen-bond
      environments is judged on the distances to the axis atoms, the rigidity of the moved set and the fixed axis atoms;
      end of run: bond lengths and angles among input heavy atoms, backbone displacement, NoMoveWhenForbidden.
(T)   stage clause: the same runs are validated against Pipeline.tla (PipelineTrace): input heavy atoms change only in the
      debump / optimisation stages and never when the options forbid it.
"""
import io
import json
import math
import os
import random
import shutil

import numpy as np

from .. import core, gen

LEVEL = "model_checking"
DATA = os.path.join(core.REPO, "tests", "data")
CODE_CONSTS = {"Component": "TRUE"}
VARIANTS = ["ASH", "GLH", "HIP", "CYM", "LYN", "TYM", "AR0"]
BASE_OF = {"ASH": "ASP", "GLH": "GLU", "HIP": "HIS", "CYM": "CYS", "LYN": "LYS", "TYM": "TYR", "AR0": "ARG"}
DUMMY = {"atoms": ["CA"], "bonds": [], "dih": ["CA", "CA", "CA", "CA"], "nterm": False, "cterm": False, "backbone": ["CA"], "label": "-"}


# ------------------------------------------------------------------ topology cases from the real objects
def residue_cases(res, label):
    """one case per dihedral of the residue: the patched topology bond graph, the real ranks, the real moved set"""
    out = []
    names = [a.name for a in res.atoms]
    # the bond graph of the patched topology object (independent of the atoms' own bond lists)
    bonds = sorted(set(tuple(sorted((n, b))) for n in names if n in res.reference.map
                       for b in res.reference.map[n].bonds if b in names and b != n))
    rank = {a.name: int(a.refdistance) for a in res.atoms}
    for k, d in enumerate(res.reference.dihedrals):
        dn = d.split()
        if len(dn) != 4 or not all(res.has_atom(n) for n in dn):
            continue
        out.append({"cs": {"atoms": names, "bonds": [list(b) for b in bonds], "dih": dn, "nterm": bool(res.is_n_term),
                           "cterm": bool(res.is_c_term), "backbone": [a.name for a in res.atoms if a.is_backbone],
                           "label": f"{label} dihedral {k} {d}"},
                    "realrank": rank, "realmoved": res.get_moveable_names(dn[2])})
    return out


def _topo_job(job):
    x, pos = job
    core.use_repo()
    from pdb2pqr import pdb as ppdb, main as pmain, debump, cells as pcells
    from pdb2pqr.config import CELL_SIZE

    seq = ["ALA", "ALA", "ALA"]
    seq[pos] = x
    tpl = [s if s in gen.definitions().map else BASE_OF[s] for s in seq]
    text = gen.pdb_text([gen.peptide(tpl, names=seq)])
    out = []
    try:
        pdblist, _ = ppdb.read_pdb(io.StringIO(text))
        bio, _d, _l = pmain.setup_molecule(pdblist, gen.definitions(), None)
        bio.set_termini()
        bio.update_bonds()
        if bio.num_missing_heavy:
            bio.repair_heavy()
        bio.update_ss_bridges()
        bio.add_hydrogens()
        deb = debump.Debump(bio)
        deb.cells = pcells.Cells(CELL_SIZE)
        deb.cells.assign_cells(bio)
        bio.calculate_dihedral_angles()
        bio.set_donors_acceptors()
        bio.update_internal_bonds()
        bio.set_reference_distance()
        res = bio.residues[pos]
        out += residue_cases(res, f"{x} at {'NIC'[pos]}")
    except Exception as e:
        out.append({"error": f"{x} {pos}: {type(e).__name__}: {e}"[:200]})
    return out


# ------------------------------------------------------------------ traced runs
def clash_inputs(ctx, rng):
    """peptides with water oxygens placed where hydrogens / rebuilt atoms will appear, and polar environments"""
    out = []
    long_ = ["LYS", "ARG", "MET", "GLU", "GLN", "ILE", "LEU", "THR", "SER", "TYR", "HIS", "ASN", "ASP", "PHE", "TRP", "VAL", "CYS", "PRO"]
    n = 36 if ctx.quick else 240
    for k in range(n):
        x = long_[k % len(long_)]
        pos = (k // len(long_)) % 3
        seq = ["ALA", "GLY", "ALA"]
        seq[pos] = x
        if rng.random() < 0.4:
            seq = seq + [rng.choice(long_)]
        heavy = gen.peptide(seq)
        full = gen.peptide(seq, hydrogens=True)
        hs = [a for a in full if a["name"].startswith("H") and a["res_index"] == pos and a["name"] not in ("H", "HA", "HA2", "HA3")]
        wats = []
        for w in range(rng.randint(1, 4)):
            if not hs:
                break
            h = rng.choice(hs)
            parent = min((a for a in heavy if a["res_index"] == pos), key=lambda a: np.linalg.norm(a["xyz"] - h["xyz"]))
            v = h["xyz"] - parent["xyz"]
            v = v / np.linalg.norm(v) + 0.35 * np.array([rng.uniform(-1, 1) for _ in range(3)])
            p = h["xyz"] + rng.uniform(0.2, 0.9) * v / np.linalg.norm(v)
            if all(np.linalg.norm(p - a["xyz"]) > 2.2 for a in heavy) and all(np.linalg.norm(p - q[0]["xyz"]) > 2.4 for q in wats):
                wats.append(gen.water(tuple(p), chain="W", resseq=500 + w))
        omit = set()
        if rng.random() < 0.3:
            side = [a["name"] for a in heavy if a["res_index"] == pos and a["name"] not in ("N", "CA", "C", "O", "CB", "OXT")]
            if side:
                omit = {(pos, side[-1])}
                heavy = gen.peptide(seq, omit=omit)
        opts = [[], ["--noopt"], ["--nodebump"], ["--nodebump", "--noopt"], ["--assign-only"], ["--clean"]][k % 6] if k % 3 == 0 else []
        out.append({"what": f"clash {'-'.join(seq)} waters={len(wats)} omit={sorted(omit)}", "text": gen.pdb_text([heavy] + wats),
                    "args": [f"--ff={gen.FORCE_FIELDS[k % 6]}"] + opts})
    # hard clashes: several waters on the hydrogens of one long side chain, so that the debump search needs several rounds
    # and returns to a dihedral it has already changed
    hard = ["LYS", "ARG", "MET", "GLU", "GLN"]
    for k in range(320 if ctx.quick else 2400):
        x = hard[k % len(hard)]
        seq = ["ALA", x, "ALA"]
        heavy = gen.peptide(seq)
        full = gen.peptide(seq, hydrogens=True)
        hs = [a for a in full if a["name"].startswith("H") and a["res_index"] == 1 and a["name"] not in ("H", "HA")]
        par = {h["name"]: min((a for a in heavy if a["res_index"] == 1), key=lambda a: np.linalg.norm(a["xyz"] - h["xyz"])) for h in hs}
        wats = []
        for w in range(rng.randint(2, 6)):
            h = rng.choice(hs)
            v = h["xyz"] - par[h["name"]]["xyz"]
            v = v / np.linalg.norm(v) + 0.5 * np.array([rng.uniform(-1, 1) for _ in range(3)])
            p = h["xyz"] + rng.uniform(0.5, 1.3) * v / np.linalg.norm(v)
            if all(np.linalg.norm(p - a["xyz"]) > 1.9 for a in heavy) and all(np.linalg.norm(p - q[0]["xyz"]) > 2.0 for q in wats):
                wats.append(gen.water(tuple(p), chain="W", resseq=500 + w))
        out.append({"what": f"hard clash ALA-{x}-ALA #{k} waters={len(wats)}", "text": gen.pdb_text([heavy] + wats), "args": ["--ff=AMBER", "--noopt"],
                    "light": True})
    # a carbon of another chain on the axis of a terminal group (-NH3+, -CH3, -OH): only the torsion that ends in a
    # hydrogen can answer
    for k in range(40 if ctx.quick else 300):
        x = rng.choice(sorted(gen.POLAR_PARENTS))
        got = gen.carbon_contact(rng, x, parent=rng.choice(gen.POLAR_PARENTS[x]), axial=k % 4 != 3)
        if got:
            out.append({"what": got[1], "text": gen.pdb_text(got[0]), "args": ["--ff=AMBER"] + ([] if k % 3 else ["--noopt"]), "light": True})
    # inputs that already carry their hydrogens, with a titration method (hydrogens stripped and built again mid-run)
    for k in range(6 if ctx.quick else 40):
        chains, what = gen.protonated_with_clashes(rng)
        out.append({"what": what, "text": gen.pdb_text(chains), "args": ["--ff=" + gen.FORCE_FIELDS[k % 6], "--titration-state-method=propka", "--with-ph=7"],
                    "post": True})
    from .c03 import environments
    for rep in range(2 if ctx.quick else 8):
        for name, chains in environments(rng):
            for o in ([], ["--nodebump", "--noopt"]):
                out.append({"what": f"env {name}#{rep}", "text": gen.pdb_text(chains), "args": ["--ff=AMBER"] + o, "post": not o})
    from .. import corpus as shared
    out += shared.variants(ctx.quick, rng)
    for f, o in (("1AJJ.pdb", []), ("cterm_hid.pdb", ["--nodebump", "--noopt"]), ("1BX8.pdb", ["--noopt"]), ("5vav_cyclic_peptide.pdb", ["--nodebump"])):
        out.append({"what": f, "text": open(os.path.join(DATA, f)).read(), "args": ["--ff=PARSE"] + o, "post": True})
    # the options that forbid moves keep forbidding them whatever else is asked for (a titration method, other output options)
    tit = ["--titration-state-method=propka", f"--with-ph={rng.choice([4, 7, 9])}"]
    for f, o in (("1AJJ.pdb", ["--nodebump", "--noopt"] + tit), ("1BX8.pdb", ["--noopt"] + tit), ("cterm_hid.pdb", ["--nodebump", "--noopt", "--drop-water", "--keep-chain"]),
                 ("1AJJ.pdb", ["--assign-only"] + tit), ("1BX8.pdb", ["--clean"] + tit)):
        out.append({"what": f, "text": open(os.path.join(DATA, f)).read(), "args": ["--ff=" + rng.choice(["AMBER", "PARSE", "CHARMM"])] + o})
    # coordinates that use the whole eight-column field (<= -100 or >= 1000) in some or all of the atoms
    for k in range(6 if ctx.quick else 30):
        seq = [rng.choice(gen.AMINO) for _ in range(rng.randint(3, 7))]
        heavy = gen.peptide(seq)
        shift = np.array([rng.choice([-100.0, -160.0, 995.0, 1200.0, 0.0]) + rng.uniform(-3, 3) for _ in range(3)])
        for a in heavy:
            a["xyz"] = a["xyz"] + shift
        o = [[], ["--nodebump", "--noopt"], ["--clean"], ["--assign-only"], ["--noopt"], ["--nodebump"]][k % 6]
        out.append({"what": f"wide coordinates {'-'.join(seq)} shift {[round(float(v)) for v in shift]}", "text": gen.pdb_text([heavy]),
                    "args": ["--ff=" + gen.FORCE_FIELDS[k % 6]] + o})
    if not ctx.quick:
        out.append({"what": "1K1I.pdb", "text": open(os.path.join(DATA, "1K1I.pdb")).read(), "args": ["--ff=AMBER"]})
    return out


def _dist(a, b):
    return math.sqrt(sum((a[i] - b[i]) ** 2 for i in range(3)))


def _angle(a, b, c):
    v1 = np.array(a) - np.array(b)
    v2 = np.array(c) - np.array(b)
    cs = float(np.dot(v1, v2) / (np.linalg.norm(v1) * np.linalg.norm(v2) + 1e-12))
    return math.degrees(math.acos(max(-1.0, min(1.0, cs))))


PHOSPHATE_ALIAS = {"O1P": "OP1", "OP1": "O1P", "O2P": "OP2", "OP2": "O2P"}


def _run_job(job):
    from .. import runner
    from .c12 import events_for_spec, opts_record

    wd = os.path.join(core.VERIF, ".work", f"c04-{os.getpid()}")
    os.makedirs(wd, exist_ok=True)
    out = os.path.join(wd, "o.pqr")
    open(os.path.join(wd, "in.pdb"), "w").write(job["text"])
    r = runner.run(job["args"] + [os.path.join(wd, "in.pdb"), out], groups={"stages", "torsion", "atoms", "debump"}, out_path=out)
    tr = r["tracer"]
    res = {"ok": r["ok"], "exc": r["exc_type"], "turns": [], "final": None, "pipe": None,
           "debump": [c for c in getattr(tr, "debump_calls", []) if c["ev"]][:400]}
    if r["ok"]:
        for e in tr.events:
            if e.get("e") != "turn":
                continue
            b, a = e["before"], e["after"]
            moved = sorted(n for n in b if n in a and b[n] != a[n])
            ax = [n for n in e["dih"][1:3] if n in b]
            axisdev = max([abs(_dist(a[m], a[x]) - _dist(b[m], b[x])) for m in moved for x in ax] + [0.0])
            pairdev = max([abs(_dist(a[m], a[n]) - _dist(b[m], b[n])) for i, m in enumerate(moved) for n in moved[i + 1:]] + [0.0])
            axismove = max([_dist(a[x], b[x]) for x in ax] + [0.0])
            dih = e["dih"] if all(e["dih"]) else [e["dih"][1], e["dih"][1], e["dih"][2], moved[0] if moved else e["dih"][2]]
            res["turns"].append({"cs": {"atoms": sorted(b), "bonds": [list(x) for x in e["bonds"]], "dih": dih, "nterm": e["nterm"], "cterm": e["cterm"],
                                        "backbone": e["backbone"], "label": e["res"]},
                                 "realmoved": moved, "axisdev": int(round(axisdev * 1e6)), "pairdev": int(round(pairdev * 1e6)),
                                 "axismove": int(round(axismove * 1e6)), "routine": e["routine"], "stage": e["stage"], "fr": e["fr"],
                                 "what": f"{e['routine']} {e['res']} {e['dih']} in {e['stage']} ({e['fr']})"})
        # end of run: geometry among the heavy atoms the input supplied
        first, first_named = {}, {}
        for e in tr.events:
            if e.get("e") == "new" and e["stage"] in ("SetupMolecule", "") and e["hv"]:
                first[e["a"]] = [v / 1000.0 for v in e["p"]]
                # position in the chain + atom name: survives residue renaming and the object exchange of a kept flip
                first_named[(e["res"].split(" ", 1)[1], e["name"])] = first[e["a"]]
        # the reference is what the input file says, not what the reader made of it: where the (chain, number, name) of an
        # input line is unique in the text, the coordinates printed in its columns 31-54 stand for the atom's input position
        intext, seen = {}, set()
        for ln in job["text"].splitlines():
            if ln.startswith("ENDMDL"):
                break
            if ln.startswith(("ATOM  ", "HETATM")) and len(ln) >= 54:
                try:
                    k_ = (f"{ln[21].strip()} {int(ln[22:26])}{ln[26].strip()}", ln[12:16].strip())
                    xyz = [float(ln[30:38]), float(ln[38:46]), float(ln[46:54])]
                except ValueError:
                    continue
                if k_ in seen:
                    intext.pop(k_, None)
                else:
                    seen.add(k_)
                    intext[k_] = xyz
        for e in tr.events:
            if e.get("e") == "new" and e["stage"] in ("SetupMolecule", "") and e["hv"]:
                k_ = (e["res"].split(" ", 1)[1], e["name"])
                if k_ in intext:
                    first[e["a"]] = first_named[k_] = intext[k_]
        ids = tr.ids
        bonddev = angledev = backbonemove = anymove = 0.0
        worst = ""
        for rr in r["bio"].residues:
            cur = {}
            rkey = f"{getattr(rr, 'chain_id', '')} {getattr(rr, 'res_seq', '')}{getattr(rr, 'ins_code', '')}"
            for a in rr.atoms:
                i = ids.get(id(a))
                if i in first:
                    cur[a.name] = (first[i], [a.x, a.y, a.z], a)
                elif (rkey, a.name) in first_named and not a.name.startswith("H"):
                    # the heavy atom that now carries the name of an input atom of this residue (a flip keeps the *FLIP copy
                    # under the original name): it stands for that input atom
                    cur[a.name] = (first_named[(rkey, a.name)], [a.x, a.y, a.z], a)
                elif not a.name.startswith("H"):
                    # ... or the name the topology / the repair step treats as its other spelling (OP1 = O1P, O'' = OXT, C5* = C5'),
                    # when the input atom under that spelling is gone: deleting an input atom and rebuilding it elsewhere is a move
                    ref_ = getattr(getattr(rr, "reference", None), "map", {}) or {}
                    alts = {PHOSPHATE_ALIAS.get(a.name), getattr(ref_.get(a.name), "altname", None)} - {None, ""}
                    for alt in alts:
                        if (rkey, alt) in first_named and not rr.has_atom(alt):
                            cur[a.name] = (first_named[(rkey, alt)], [a.x, a.y, a.z], a)
                            break
            for nm, (p0, p1, a) in cur.items():
                d = _dist(p0, p1)
                if d > anymove:
                    anymove, worst = d, f"{rr} {nm}"
                if (getattr(a, "is_backbone", False) or nm in ("OXT",)) and d > backbonemove:
                    backbonemove = d
            names = list(cur)
            bonded = [(m, n) for i, m in enumerate(names) for n in names[i + 1:] if _dist(cur[m][0], cur[n][0]) < 1.95]
            refmap = getattr(getattr(rr, "reference", None), "map", None)
            if refmap:
                # a recognised residue: only pairs its topology bonds (a clash in the input is not a bond)
                bonded = [(m, n) for m, n in bonded if m not in refmap or n not in refmap
                          or n in refmap[m].bonds or m in refmap[n].bonds]
            for m, n in bonded:
                dv = abs(_dist(cur[m][1], cur[n][1]) - _dist(cur[m][0], cur[n][0]))
                if dv > bonddev:
                    bonddev, worst = dv, f"{rr} {m}-{n}"
            for m, n in bonded:
                for (p, q_) in bonded:
                    if (m, n) >= (p, q_):
                        continue
                    shared = set((m, n)) & set((p, q_))
                    if len(shared) != 1:
                        continue
                    b_ = shared.pop()
                    x1 = n if m == b_ else m
                    x2 = q_ if p == b_ else p
                    dv = abs(_angle(cur[x1][1], cur[b_][1], cur[x2][1]) - _angle(cur[x1][0], cur[b_][0], cur[x2][0]))
                    if dv > angledev:
                        angledev = dv
                        if dv > 0.05:
                            worst = f"{rr} {x1}-{b_}-{x2}"
        # the model after the run: what the next torsion change would move (ranks recomputed as a debump pass does)
        res["post"] = []
        if job.get("post"):
            try:
                from pdb2pqr import aa as paa
                r["bio"].set_reference_distance()
                for rr in r["bio"].residues:
                    if isinstance(rr, paa.Amino) and getattr(rr.reference, "dihedrals", None):
                        res["post"] += residue_cases(rr, f"{rr.name} {rr.chain_id}{rr.res_seq} after the run:")
            except Exception as e:
                res["post"] = [{"error": f"{type(e).__name__}: {e}"[:200]}]
        o = opts_record(job["args"])
        cap = lambda v: min(int(round(v * 1e6)), 2 * 10 ** 9)   # TLC integers are 32 bit
        res["final"] = {"bonddev": cap(bonddev), "angledev": cap(angledev), "backbonemove": cap(backbonemove),
                        "anymove": cap(anymove), "forbidden": bool(o["clean"] or o["assignOnly"] or (not o["debump"] and not o["opt"])),
                        "worst": worst}
        res["pipe"] = {"opts": o, "fs0": "absent", "ev": events_for_spec(tr.events, clean=o["clean"]), "outcome": "ok", "pqrfinal": True, "expectfile": True}
    shutil.rmtree(wd, ignore_errors=True)
    return res


def run(ctx):
    rng = random.Random(ctx.seed)
    ctx.rule = ("topology cases: every residue type and named variant x {N-terminal, internal, C-terminal} x every dihedral of its "
                "topology; traced runs: peptides with waters placed on future hydrogen positions (clashes), omitted side-chain "
                "atoms, hydrogen-bond environments, repository structures, with the options that forbid movement among them. "
                "Distinct = distinct case / run; non-trivial = case at a chain terminus or branch point / run with a torsion event")
    ctx.assumptions += ["bonded pairs among input heavy atoms = pairs closer than 1.95 A in the input that the residue's topology bonds (all such pairs for residues without topology)",
                        "coordinates compared at the 0.001 A the input carries; deviations measured by the harness in float, "
                        "thresholds (0.001 A, 0.05 deg) judged by TLC"]
    ctx.trusted += ["vlib/tracer.py (torsion, stage and atom wrappers)", "vlib/checks/c04.py (geometry measurements)", "TLC 1.8"]
    tjobs = [(x, pos) for x in gen.AMINO + VARIANTS for pos in range(3) if x not in ("GLY",)]
    tres = core.pmap(_topo_job, tjobs, chunksize=2)
    traces = []
    for out in tres:
        for o in out:
            if "error" in o:
                ctx.drift.append({"topology_case_failed": o["error"]})
                continue
            traces.append({"id": len(traces) + 1, "kind": "topology", "cs": o["cs"], "realrank": o["realrank"], "realmoved": o["realmoved"],
                           "axisdev": 0, "pairdev": 0, "axismove": 0, "bonddev": 0, "angledev": 0, "backbonemove": 0, "anymove": 0,
                           "forbidden": False, "worst": "", "what": o["cs"]["label"]})
            ctx.evaluations += 1
            if o["cs"]["nterm"] or o["cs"]["cterm"] or o["cs"]["label"].split()[0] in ("ILE", "THR", "VAL", "LEU", "PRO"):
                ctx.nontrivial.add(o["cs"]["label"])
    ntopo = len(traces)
    jobs = clash_inputs(ctx, rng)
    rres = core.pmap(_run_job, jobs, chunksize=1)
    pipes = []
    nturn = 0
    multi = 0
    npost = 0
    for j, o in zip(jobs, rres):
        ctx.evaluations += 1
        if not o["ok"]:
            if len(ctx.drift) < 20:
                ctx.drift.append({"what": j["what"], "args": j["args"], "run_failed": o["exc"]})
            continue
        what = f"{j['what']} {' '.join(j['args'])}"
        agg = {}
        for t in o["turns"]:
            nturn += 1
            k = (t["cs"]["label"], tuple(t["cs"]["dih"]), t["routine"], t["stage"], tuple(t["realmoved"]))
            if k not in agg:
                agg[k] = dict(t, n=1)
            else:
                g = agg[k]
                g["n"] += 1
                for f in ("axisdev", "pairdev", "axismove"):
                    g[f] = max(g[f], t[f])
        for t in agg.values():       # one trace per (residue, dihedral, routine, stage, moved set) with the worst deviations
            traces.append({"id": len(traces) + 1, "kind": "turn", "cs": t["cs"], "realrank": {}, "realmoved": t["realmoved"],
                           "axisdev": t["axisdev"], "pairdev": t["pairdev"], "axismove": t["axismove"], "bonddev": 0, "angledev": 0,
                           "backbonemove": 0, "anymove": 0, "forbidden": False, "worst": "", "what": f"{what}: {t['what']} ({t['n']} events)",
                           "routine": t["routine"]})
        dih_seq = [tuple(t["cs"]["dih"]) for t in o["turns"] if t["routine"] == "set_dihedral_angle" and t["stage"] == "Debump"]
        groups = [x for k, x in enumerate(dih_seq) if k == 0 or dih_seq[k - 1] != x]
        if any(groups[k] in groups[:k - 1] for k in range(2, len(groups))):
            multi += 1
        if o["turns"]:
            ctx.nontrivial.add(what)
        for pc in o.get("post", []):
            if "error" in pc:
                ctx.drift.append({"what": what, "post_run_cases_failed": pc["error"]})
                continue
            npost += 1
            traces.append({"id": len(traces) + 1, "kind": "topology", "cs": pc["cs"], "realrank": pc["realrank"], "realmoved": pc["realmoved"],
                           "axisdev": 0, "pairdev": 0, "axismove": 0, "bonddev": 0, "angledev": 0, "backbonemove": 0, "anymove": 0,
                           "forbidden": False, "worst": "", "what": f"{what}: {pc['cs']['label']}"})
        f = o["final"]
        traces.append(dict({"id": len(traces) + 1, "kind": "final", "cs": DUMMY, "realrank": {}, "realmoved": [], "axisdev": 0, "pairdev": 0,
                            "axismove": 0, "what": what}, **f))
        p = o["pipe"]
        p["id"] = len(pipes) + 1
        p["what"] = what
        pipes.append(p)
    # the debumper's search (Debump.tla): every recorded call of debump_residue must be a behaviour of the search model.
    # Not a listed property: a rejected trace is drift, reported in the evidence only.
    dcalls = []
    for j, o in zip(jobs, rres):
        for c in o.get("debump", []):
            dcalls.append({"id": len(dcalls) + 1, "ev": c["ev"], "what": f"{j['what']}: {c['res']} in {c['stage']}"})
    if dcalls:
        core.use_repo()
        from pdb2pqr import config as pcfg
        # the binding is shown on every run: a copy of a real trace with one angle shifted by a scan step must be rejected
        import copy
        probe = next((c for c in dcalls if sum(1 for e in c["ev"] if e["e"] == "set") >= 3), None)
        if probe is not None:
            bad = copy.deepcopy(probe)
            sets = [e for e in bad["ev"] if e["e"] == "set"]
            sets[len(sets) // 2]["a"] += 5000
            bad["id"], bad["what"] = len(dcalls) + 1, "corrupted copy"
            dcalls.append(bad)
        dtf = core.write_json(os.path.join(ctx.work, "debump.json"), [{"id": c["id"], "ev": c["ev"]} for c in dcalls])
        dcfg = os.path.join(ctx.work, "debump.cfg")
        open(dcfg, "w").write(f"SPECIFICATION TSpec\nCONSTANTS\n  Steps = {int(pcfg.DEBUMP_ANGLE_STEPS)}\n  StepSize = {int(round(pcfg.DEBUMP_ANGLE_STEP_SIZE * 1000))}\n"
                              f"  TestCount = {int(pcfg.DEBUMP_ANGLE_TEST_COUNT)}\nINVARIANT Progress\nPOSTCONDITION Verdicts\n")
        rd = core.run_tlc("DebumpTrace", dcfg, ctx.work, workers=1, env={"TRACE_FILE": dtf}, timeout=1800, heap="6g")
        core.need_ok(rd, "DebumpTrace")
        ctx.add_tlc(rd, "debump search conformance (drift only)")
        dv = {v[1]: v for v in rd.printed if isinstance(v, list) and v and v[0] == "T"}
        if probe is not None:
            bad = dcalls.pop()
            if bad["id"] not in dv or dv[bad["id"]][2]:
                raise core.MachineryError("DebumpTrace accepted a corrupted trace")
        rej = [c for c in dcalls if c["id"] in dv and not dv[c["id"]][2]]
        ctx.extra["debump_search"] = {"calls": len(dcalls), "accepted_by_Debump_tla": len(dcalls) - len(rej), "rejected": len(rej),
                                      "invariant_violated": rd.invariant or ""}
        for c in rej[:5]:
            k = dv[c["id"]][3]
            ctx.drift.append({"debump_search_rejected": c["what"], "at_event": k, "events_around": c["ev"][max(0, k - 3):k + 2]})
        ctx.traces += len(dcalls)
    ctx.extra.update(topology_cases=ntopo, post_run_moved_set_cases=npost, torsion_events=nturn, runs=len(jobs), runs_returning_to_a_changed_dihedral=multi)
    tf = core.write_json(os.path.join(ctx.work, "tr.json"), [dict({k: v for k, v in t.items() if k != "what"}, routine=t.get("routine", "")) for t in traces])
    cfg = os.path.join(ctx.work, "m.cfg")
    open(cfg, "w").write(f"SPECIFICATION TSpec\nCONSTANTS\n  Component = {CODE_CONSTS['Component']}\nINVARIANT Report\n")
    r = core.run_tlc("MovesTrace", cfg, ctx.work, workers=8, env={"TRACE_FILE": tf}, timeout=3000, heap="8g")
    core.need_ok(r, "MovesTrace")
    ctx.add_tlc(r, "moved sets, torsion events, final geometry")
    got = {v[1]: v for v in r.printed if isinstance(v, list) and v and v[0] == "T"}
    if len(got) != len(traces):
        raise core.MachineryError(f"{len(got)} verdicts for {len(traces)} traces; {r.unparsed[:2]} {r.out[-800:]}")
    ctx.traces += len(traces)
    ndrift = 0
    for t in traces:
        _, _, acc, bad = got[t["id"]]
        for b in bad:
            cs = t["cs"]
            if t["kind"] == "topology" or (t["kind"] == "turn" and b[0] in ("ProtectedAtomMoves", "BondCutOffAxis", "FourthAtomStays")):
                pos = "N" if cs["nterm"] else ("C" if cs["cterm"] else "I")
                resname = cs["label"].split()[0]
                ctx.violation({"clause": b[0], "atom": b[1], "position": pos if b[1] in ("OXT", "H2", "H3", "HO") else None,
                               "residue": resname if b[1] not in ("OXT", "H2", "H3", "HO") else None, "pivot": cs["dih"][2]},
                              f"{t['what']}: moved set {t['realmoved']} ({b})", {"case": cs, "moved": t["realmoved"]})
            elif t["kind"] == "turn":
                ctx.violation({"clause": b[0], "routine": t.get("routine")},
                              f"{t['what']}: axisdev {t['axisdev']} pairdev {t['pairdev']} axismove {t['axismove']} micro-A", {"what": t["what"]})
            else:
                ctx.violation({"clause": b[0]}, f"{t['what']}: bond {t['bonddev']} micro-A angle {t['angledev']} micro-deg backbone {t['backbonemove']} "
                                                f"any {t['anymove']} forbidden={t['forbidden']} worst at {b[1]}", {"what": t["what"]})
        if t["kind"] == "topology" and not acc:
            ndrift += 1
            if len(ctx.drift) < 20:
                ctx.drift.append({"case": t["what"], "real_moved": t["realmoved"]})
    ctx.extra["topology_cases_not_matching_algorithm_model"] = ndrift
    # stage clause on the same runs
    tf2 = core.write_json(os.path.join(ctx.work, "pipe.json"), [{k: p[k] for k in ("id", "opts", "fs0", "ev", "outcome", "pqrfinal", "expectfile")} for p in pipes])
    cfg2 = os.path.join(ctx.work, "p.cfg")
    open(cfg2, "w").write("SPECIFICATION TSpec\nCONSTANTS\n  OptionSets = {}\n  InitialFs = {}\n  FaultStages = {}\nINVARIANT AtEnd\n")
    r = core.run_tlc("PipelineTrace", cfg2, ctx.work, workers=1, env={"TRACE_FILE": tf2}, timeout=3000, heap="8g")
    core.need_ok(r, "PipelineTrace")
    ctx.add_tlc(r, "stage clause (PipelineTrace)")
    byp = {p["id"]: p for p in pipes}
    for v in r.printed:
        if isinstance(v, list) and v and v[0] == "W" and v[4] == "heavy":
            ctx.violation({"clause": "HeavyOnlyInMoveStages", "stage": v[3]}, f"{byp[v[1]]['what']}: input heavy atoms changed in stage {v[3]}", {"what": byp[v[1]]["what"]})
        elif isinstance(v, list) and v and v[0] == "MOVE":
            ctx.violation({"clause": "NoMoveWhenForbidden", "stage": "any"}, f"{byp[v[1]]['what']}: input heavy atoms moved although the options forbid it", {"what": byp[v[1]]["what"]})
        elif isinstance(v, list) and v and v[0] == "ORDER":
            if len(ctx.drift) < 30:
                ctx.drift.append({"what": byp[v[1]]["what"], "stage_out_of_order": v[3]})
    ctx.traces += len(pipes)
    tp = [t for t in traces if t["kind"] == "topology"]
    ctx.sample({"case": tp[7]["cs"]["label"], "dihedral": tp[7]["cs"]["dih"], "real_rank": tp[7]["realrank"], "real_moved": tp[7]["realmoved"]})
    tt = [t for t in traces if t["kind"] == "turn"]
    if tt:
        ctx.sample({"torsion_event": tt[0]["what"], "moved": tt[0]["realmoved"], "axisdev_microA": tt[0]["axisdev"]})
