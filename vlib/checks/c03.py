"""C03 - no atom is silently lost, duplicated or invented.

(M) TLC: OptClasses.tla - the name-set effect of the optimisation classes (Water, Alcoholic, Flip, Carboxylic) over all
    sequences of <= 4 try_* calls per object with every outcome: NoTempAfterComplete, FinalSetIsTopology,
    InputHeavyConserved.
(T) every run of the corpus is recorded at primitive level (Residue.add_atom / remove_atom / rename_atom with the pipeline
    stage, log records) and validated by TLC against the atom ledger of Lifecycle.tla (LifecycleTrace): each creation /
    deletion must be legal for its stage and origin; at the end TLC checks LOST (input heavy atoms of recognised residues
    present or reported or 5' phosphate), DUPNAME, TEMP (no lone pairs / flip copies), PARTITION (matched and unassigned
    lists partition the final atoms), WRITTEN (PQR lines = matched atoms, one line each, same order), TOPOLOGY (fully
    parameterised residues carry exactly the atom set of their patched topology).
(R) the corpus forces the branches: every residue type at every position, hydrogens present / absent, missing and extra
    heavy atoms, nucleic acids, waters in hydrogen-bond environments (acceptors receiving two donors), ligand complexes,
    option combinations (noopt, nodebump, assign-only, drop-water, propka).
"""
import json
import os
import random
import shutil

import numpy as np

from .. import core, gen

LEVEL = "model_checking"
DATA = os.path.join(core.REPO, "tests", "data")
PHOS = {"P", "O1P", "O2P", "OP1", "OP2", "OP3", "HOP2", "HOP3"}
# the deposited spelling of the phosphate oxygens: the repair step and the names files of the force fields treat OP1 / OP2 as
# O1P / O2P without renaming the atom, so the topology clauses see them under the topology's spelling
CANON = {"OP1": "O1P", "OP2": "O2P"}


# ------------------------------------------------------------------ environments
def donor_chain(point, direction, chain, start, rng, seq=("GLY", "ALA", "GLY"), dist=2.9):
    """a short peptide placed rigidly so that the backbone N-H of its middle residue points at `point` from `direction`
    (N at point - dist * direction)"""
    at = gen.peptide(list(seq), chain=chain, start=start, hydrogens=True)
    n = next(a["xyz"] for a in at if a["res_index"] == 1 and a["name"] == "N")
    h = next(a["xyz"] for a in at if a["res_index"] == 1 and a["name"] == "H")
    d = np.array(direction, dtype=float)
    d /= np.linalg.norm(d)
    R = gen._align(h - n, d)
    R = gen._rot_axis(d, rng.uniform(0, 6.28)) @ R
    t = (np.array(point) - dist * d) - R @ n
    out = gen.transform(at, R, t)
    return [a for a in out if not a["name"].startswith("H")]      # heavy atoms only: pdb2pqr rebuilds the hydrogens


def environments(rng):
    """(name, chains) structures that drive the optimisation classes into their branches"""
    out = []
    # a water accepting from two backbone N-H donors
    w = np.array([0.0, 0.0, 0.0])
    c1 = donor_chain(w, (1, 0.2, 0), "A", 1, rng)
    c2 = donor_chain(w, (-0.4, 1, 0.3), "B", 1, rng)
    out.append(("water-two-donors", [c1, c2, gen.water(tuple(w), chain="W", resseq=1)]))
    # a serine hydroxyl accepting from two donors
    ser = gen.peptide(["ALA", "SER", "ALA"], chain="S", start=1)
    og = next(a["xyz"] for a in ser if a["name"] == "OG")
    cb = next(a["xyz"] for a in ser if a["name"] == "CB" and a["res_index"] == 1)
    away = og - cb
    perp = np.cross(away, [0.3, 1.0, 0.2])
    d1 = -(away / np.linalg.norm(away) + 0.8 * perp / np.linalg.norm(perp))
    d2 = -(away / np.linalg.norm(away) - 0.8 * perp / np.linalg.norm(perp))
    out.append(("serine-two-donors", [ser, donor_chain(og, d1, "A", 1, rng), donor_chain(og, d2, "B", 1, rng)]))
    # waters around a peptide rich in polar side chains, at hydrogen-bond distance from N / O atoms
    pep = gen.peptide(["SER", "HIS", "ASN", "THR", "GLN", "TYR", "ASP", "CYS", "LYS", "GLU"], chain="A", start=1)
    wats = []
    polar = [a for a in pep if a["name"][0] in "NO" and a["name"] not in ("N", "O")]
    cen = sum(a["xyz"] for a in pep) / len(pep)
    for k, a in enumerate(polar):
        v = a["xyz"] - cen
        v /= np.linalg.norm(v)
        v = v + 0.4 * np.array([rng.uniform(-1, 1) for _ in range(3)])
        v /= np.linalg.norm(v)
        pos = a["xyz"] + rng.choice([2.7, 2.9, 3.1]) * v
        if all(np.linalg.norm(pos - b["xyz"]) > 2.4 for b in pep) and all(np.linalg.norm(pos - x[0]["xyz"]) > 2.5 for x in wats):
            wats.append(gen.water(tuple(pos), chain="W", resseq=200 + k))
    out.append(("polar-peptide-waters", [pep] + wats))
    # protonated carboxylic acids named in the input, with a water near each
    acid = gen.peptide(["ALA", "ASH", "GLY", "GLH", "ALA"], chain="A", start=1)
    ws = []
    for a in acid:
        if a["name"] in ("OD1", "OD2", "OE1", "OE2"):
            v = a["xyz"] - sum(b["xyz"] for b in acid) / len(acid)
            ws.append(gen.water(tuple(a["xyz"] + 2.8 * v / np.linalg.norm(v)), chain="W", resseq=300 + len(ws)))
    out.append(("named-acids-waters", [acid] + ws))
    return out


def damaged(rng):
    """missing heavy atoms (repair) and extra atoms (reported deletion)"""
    seq = ["ALA", "HIS", "ARG", "VAL", "PHE", "GLY", "LEU", "SER", "THR", "ASN", "GLN", "MET", "TRP", "ALA"]
    omit = {(2, "NH1"), (2, "NH2"), (3, "CG1"), (6, "CD1"), (11, "CE")}
    pep = gen.peptide(seq, omit=omit)
    extra = dict(pep[5])
    extra.update(name="XX1", xyz=pep[5]["xyz"] + np.array([0.4, 0.9, 0.3]), res_index=pep[5]["res_index"])
    k = max(i for i, a in enumerate(pep) if a["res_index"] == extra["res_index"])
    pep2 = pep[:k + 1] + [extra] + pep[k + 1:]
    return [("missing-heavy", [pep]), ("missing-and-extra", [pep2])]


def corpus(ctx, rng):
    jobs = []
    opts_cycle = [[], ["--noopt"], ["--nodebump"], ["--nodebump", "--noopt"], ["--drop-water"],
                  ["--titration-state-method=propka", "--with-ph=4.5"], ["--titration-state-method=propka", "--with-ph=10.5"],
                  ["--whitespace"], ["--whitespace", "--keep-chain"], ["--include-header", "--keep-chain"]]   # the written file in its other layouts
    ffs = gen.FORCE_FIELDS
    k = 0
    for x in gen.AMINO:
        for pos in range(3):
            seq = ["ALA", "ALA", "ALA"]
            seq[pos] = x
            wat = gen.water((6, 14, 4), resseq=101)
            for oc in ([opts_cycle[k % len(opts_cycle)]] if ctx.quick else opts_cycle):
                jobs.append({"what": f"{'-'.join(seq)}+water", "text": gen.pdb_text([gen.peptide(seq) + wat]),
                             "args": [f"--ff={ffs[k % 6]}"] + oc})
                k += 1
    envs = []
    for rep in range(3 if ctx.quick else 30):
        envs += [(f"{n}#{rep}", c) for n, c in environments(rng)]
    for name, chains in envs + damaged(rng):
        for o in ([[], ["--noopt"]] if ctx.quick else [[], ["--noopt"], ["--nodebump"], ["--ff=PARSE"]]):
            args = [a for a in o if not a.startswith("--ff")]
            ff = next((a for a in o if a.startswith("--ff")), "--ff=AMBER")
            jobs.append({"what": f"{name}", "text": gen.pdb_text(chains), "args": [ff] + args})
    from .. import corpus as shared
    jobs += shared.variants(ctx.quick, rng)
    ic = gen.peptide(["ALA", "SER", "LYS", "GLY", "ASP"], start=50, icodes={2: "A", 3: "B"})
    for a in ic:
        if a["res_index"] in (2, 3):
            a["resseq"] = 51
    jobs.append({"what": "insertion-codes", "text": gen.pdb_text([ic]), "args": ["--ff=AMBER"]})
    hp = gen.peptide(["SER", "LYS", "HIS", "ASP", "TYR", "CYS"], hydrogens=True)
    jobs.append({"what": "hydrogens-present", "text": gen.pdb_text([hp]), "args": ["--ff=AMBER"]})
    for kind, s in (("D", "ACGT"), ("R", "ACGU")):
        jobs.append({"what": f"strand {kind} {s}", "text": gen.pdb_text([gen.nucleic(s, kind)]), "args": ["--ff=AMBER"]})
    lig = gen.ligand_hetatm(os.path.join(DATA, "acetate.mol2"), move_to=(-14, -12, 6))
    pep = gen.peptide(["ALA", "SER", "LYS", "GLY", "ASP"])
    for fmt in ([], ["--whitespace"]):
        jobs.append({"what": "ligand-complex", "text": gen.pdb_text([pep + gen.water((6, 14, 4), resseq=101), lig]),
                     "args": ["--ff=AMBER", f"--ligand={os.path.join(DATA, 'acetate.mol2')}"] + fmt})
    # ... with two unparameterised hetero groups of one name and number in different chains (cofactors of a homo-dimer)
    def cof(chain, at):
        return [{"rec": "HETATM", "name": n, "resname": "XYZ", "chain": chain, "resseq": 401, "icode": "", "xyz": np.array(at) + np.array([1.4 * k, 0.3 * k, 0.0]),
                 "element": n[0]} for k, n in enumerate(["S1", "O1", "O2"])]
    jobs.append({"what": "ligand-complex with twin hetero groups", "text": gen.pdb_text([pep + gen.water((6, 14, 4), resseq=101), lig, cof("X", (14, -16, 10)), cof("Y", (-14, 16, -10))]),
                 "args": ["--ff=AMBER", f"--ligand={os.path.join(DATA, 'acetate.mol2')}"]})
    # ... and with an unrecognised residue given as ATOM records whose atoms are named like ligand atoms: it stays unparameterised
    # and has to stay reported
    odd = [{"rec": "ATOM", "name": n, "resname": "PSU", "chain": "P", "resseq": 77, "icode": "", "xyz": np.array([20.0 + 1.4 * k, -18.0 + 0.4 * k, 3.0]),
            "element": n[0]} for k, n in enumerate(["CAA", "OAC", "N1", "CAB"])]
    jobs.append({"what": "ligand-complex with an unknown residue sharing atom names with the ligand", "text": gen.pdb_text([pep + gen.water((6, 14, 4), resseq=101), odd, lig]),
                 "args": ["--ff=AMBER", f"--ligand={os.path.join(DATA, 'acetate.mol2')}"]})
    real = ["1AJJ.pdb", "cterm_hid.pdb", "5vav_cyclic_peptide.pdb", "1BX8.pdb", "1K1I.pdb"] if ctx.quick else sorted(os.path.basename(f) for f in __import__("glob").glob(os.path.join(DATA, "*.pdb")))
    for n, f in enumerate(real):
        jobs.append({"what": f, "text": open(os.path.join(DATA, f)).read(), "args": [f"--ff={ffs[n % 6]}"] + opts_cycle[(2 * n) % len(opts_cycle)]})
    return jobs


def input_heavy_count(text, dropwater):
    """heavy coordinate records of the first model, one per (chain, number, icode, name) - independent column reader"""
    seen = set()
    for ln in text.split("\n"):
        if ln.startswith("ENDMDL"):
            break
        if ln.startswith(("ATOM", "HETATM")) and len(ln) >= 54:
            nm = ln[12:16].strip()
            el = ln[76:78].strip() if len(ln) >= 78 else ""
            if el == "H" or (not el and nm.lstrip("0123456789").startswith("H")):
                continue
            if dropwater and ln[17:20] in ("HOH", "WAT"):
                continue
            seen.add((ln[21], ln[22:26], ln[26], nm))
    return len(seen)


def _job(job):
    from .. import runner

    core.use_repo()
    from pdb2pqr import aa, na
    wd = os.path.join(core.VERIF, ".work", f"c03-{os.getpid()}")
    os.makedirs(wd, exist_ok=True)
    out = os.path.join(wd, "o.pqr")
    open(os.path.join(wd, "in.pdb"), "w").write(job["text"])
    r = runner.run(job["args"] + [os.path.join(wd, "in.pdb"), out], groups={"atoms", "stages", "log", "hbsched", "patch"}, out_path=out)
    tr = r["tracer"]
    res = {"ok": r["ok"], "exc": r["exc_type"], "msg": str(r["exc"])[:100] if r["exc"] else ""}
    # the scheduler of the hydrogen-bond optimisation (HbondSched.tla): every call of optimize_hydrogens of this run
    res["patches"] = list(getattr(tr, "patch_calls", []))
    res["hbs"] = [{k: c[k] for k in ("n", "hb", "fixed0", "fl0", "ev", "stage", "kinds")} for c in getattr(tr, "hbsched_calls", [])
                  if c.get("n") and "error" not in c and c["n"] <= 400 and len(c["ev"]) <= 4000]
    if r["ok"]:
        ev, reported, fivep, recognised = [], [], [], []
        last_log = ""
        for e in tr.events:
            if e["e"] == "log":
                last_log = e["msg"]
            elif e["e"] == "new":
                ev.append({"e": "new", "a": e["a"], "name": CANON.get(e["name"], e["name"]), "stage": e["stage"], "hv": bool(e["hv"]), "res": e["res"]})
                if e["stage"] in ("SetupMolecule", "") and e["hv"] and e["rc"] != "Residue" and e["rc"] != "LIG":
                    recognised.append(e["a"])
            elif e["e"] == "del":
                ev.append({"e": "del", "a": e["a"], "name": CANON.get(e["name"], e["name"]), "stage": e["stage"], "hv": False, "res": e["res"]})
                if last_log.startswith(f"Extra atom {e['name']} in"):
                    reported.append(e["a"])
                if e["stage"] == "SetTermini" and e["name"] in PHOS:
                    fivep.append(e["a"])
                last_log = ""
            elif e["e"] == "rename":
                ev.append({"e": "rename", "a": e["a"], "name": CANON.get(e["name"], e["name"]), "stage": e["stage"], "hv": False, "res": e["res"]})
        ids = tr.ids
        bio = r["bio"]
        # the final model = the atoms of its residues (the flat atom list must agree with it, see below)
        alive = [ids.get(id(a), 0) for rr in bio.residues for a in rr.atoms]
        matched, missing = getattr(tr, "ff_lists", ([], []))
        rendered = getattr(tr, "rendered", None) or []
        if r.get("missed") is not None and "--clean" not in job["args"]:
            # the lists as the run finally reports them (the ligand step and anything after it included)
            missing = list(r["missed"])
            if rendered:
                matched = list(rendered)
        if "--clean" in job["args"]:
            # no force field: every atom of the flat list is written as it is
            matched, missing, rendered = list(bio.atoms), [], list(bio.atoms)
        lines = [ln for ln in open(out).read().split("\n") if ln.startswith(("ATOM", "HETATM"))]
        written = [ids.get(id(a), 0) for a in rendered]
        if "--whitespace" in job["args"]:
            ok_lines = len(lines) == len(rendered) and all(len(ln.split()) > 2 and ln.split()[2] == a.name for ln, a in zip(lines, rendered))
        else:
            ok_lines = len(lines) == len(rendered) and all(ln[12:16].strip() == a.name[:4] for ln, a in zip(lines, rendered))
        if not ok_lines:
            written = []
        addoff = "--assign-only" in job["args"] or "--clean" in job["args"]
        missed_ids = set(id(a) for a in missing)
        residues = []
        d = gen.definitions()
        for rr in bio.residues:
            full = not any(id(a) in missed_ids for a in rr.atoms)
            check = isinstance(rr, (aa.Amino, aa.WAT, na.Nucleic)) and not addoff
            want = []
            if check:
                if isinstance(rr, aa.HIS):
                    base = rr.ffname.replace("NEUTRAL-", "")
                    base = base[1:] if len(base) == 4 and base[0] in "NC" else base
                    ref = d.map.get(base)
                    want = sorted(set(rr.reference.map) - {"N+1", "C-1"} - ((set(d.map["HIP"].map) - set(ref.map)) if ref is not None else set()))
                else:
                    want = sorted(set(rr.reference.map) - {"N+1", "C-1"})
            oneof = []
            if check and "ASH" in getattr(rr, "ffname", ""):
                oneof = [["HD1", "HD2"]]          # the protonated carboxylic acid carries one of its two possible hydrogens
            if check and "GLH" in getattr(rr, "ffname", ""):
                oneof = [["HE1", "HE2"]]
            residues.append({"ids": [ids.get(id(a), 0) for a in rr.atoms], "full": bool(full), "check": bool(check), "want": want,
                             "oneof": oneof,
                             "label": f"{rr.name} {rr.chain_id} {rr.res_seq}{rr.ins_code} ({getattr(rr, 'ffname', '')})"})
        res.update(n=max([0] + list(ids.values())), ev=ev, fin={
            "alive": alive, "matched": [ids.get(id(a), 0) for a in matched], "missed": [ids.get(id(a), 0) for a in missing],
            "written": written, "reported": reported, "recognised": recognised, "fivep": fivep,
            "inputheavy": input_heavy_count(job["text"], "--drop-water" in job["args"]),
            "residues": [{k: x[k] for k in ("ids", "full", "check", "want", "oneof")} for x in residues]},
            labels=[x["label"] for x in residues], names={v: (CANON.get(tr.atoms[v].name, tr.atoms[v].name) if v in tr.atoms else "?") for v in ids.values()},
            unobservable=tr.unobservable)
    shutil.rmtree(wd, ignore_errors=True)
    return res


def patch_conformance(ctx, jobs, res):
    """Every run-time patch application of the corpus runs, on the level of names, against ApplyPatch.tla (distinct calls only).
    Conformance, drift only; a corrupted copy (one removed atom left on the residue) must be flagged on every run."""
    seen, calls = set(), []
    for j, o in zip(jobs, res):
        for c in o.get("patches", []) or []:
            k = json.dumps([c[x] for x in ("patch", "ref0", "res0", "add", "rem", "alt", "ref1", "res1")])
            if k not in seen:
                seen.add(k)
                calls.append(dict(c, id=len(calls) + 1, what=f"{j['what']} {' '.join(j['args'])}: {c['patch']} on {c['res']} [{c['stage']}]"))
    if not calls:
        return
    probe = next((c for c in calls if c["rem"] and set(c["rem"]) & set(c["res0"])), None)
    allc = list(calls)
    if probe is not None:
        bad = dict(probe, id=len(calls) + 1, res1=probe["res1"] + [next(n for n in probe["rem"] if n in probe["res0"])], what="corrupted copy")
        allc.append(bad)
    tf = core.write_json(os.path.join(ctx.work, "patches.json"), [{k: c[k] for k in ("id", "ref0", "res0", "add", "rem", "alt", "ref1", "res1")} for c in allc])
    r = core.run_tlc("ApplyPatch", "ApplyPatch.cfg", ctx.work, workers=4, env={"TRACE_FILE": tf}, timeout=1200, heap="6g")
    core.need_ok(r, "ApplyPatch")
    ctx.add_tlc(r, "run-time patch applications (names), conformance")
    v = {x[1]: x[2] for x in r.printed if isinstance(x, list) and x and x[0] == "T"}
    if len(v) != len(allc):
        raise core.MachineryError(f"ApplyPatch: {len(v)} verdicts for {len(allc)} calls; {r.unparsed[:2]} {r.out[-500:]}")
    if probe is not None and "NoRemovedAtomLeft" not in v[allc[-1]["id"]]:
        raise core.MachineryError("ApplyPatch accepted a corrupted copy")
    flagged = [c for c in calls if v[c["id"]]]
    kinds = {}
    for c in calls:
        kinds[c["patch"]] = kinds.get(c["patch"], 0) + 1
    ctx.extra["apply_patch"] = {"distinct_calls": len(calls), "flagged": len(flagged), "patches_seen": kinds}
    for c in flagged[:8]:
        ctx.drift.append({"apply_patch_differs_from_ApplyPatch_tla": c["what"], "clauses": sorted(v[c["id"]]),
                          "rem": c["rem"], "res0": c["res0"], "res1": c["res1"]})
    ctx.traces += len(calls)


def hbsched_conformance(ctx, jobs, res):
    """Every recorded call of HydrogenRoutines.optimize_hydrogens must be a behaviour of HbondSched.tla (the order of the
    networks, of the three passes inside a network, of the bonds inside a pass, which call is made on which object with which
    atoms, and that every network member is completed).  The schedule is not one of the listed properties: a rejected trace is
    drift (evidence only).  The binding is shown on every run by a corrupted copy that must be rejected."""
    import copy
    calls = []
    for j, o in zip(jobs, res):
        for c in o.get("hbs", []) or []:
            calls.append({"id": len(calls) + 1, "n": c["n"], "hb": [[{k: h[k] for k in ("a", "b", "d", "al", "ob", "wa", "wb", "na", "nb")} for h in row]
                                                                  for row in c["hb"]],
                          "fixed0": c["fixed0"], "fl0": c["fl0"], "ev": c["ev"], "what": f"{j['what']} {' '.join(j['args'])} [{c['stage']}]",
                          "kinds": c["kinds"]})
    if not calls:
        return
    probes = []
    big = next((c for c in sorted(calls, key=lambda c: -len(c["ev"])) if sum(1 for e in c["ev"] if e["e"] in ("don", "acc")) >= 2), None)
    if big is not None:
        # (1) two neighbouring calls exchanged, (2) one complete() call dropped
        bad = copy.deepcopy(big)
        ks = [k for k, e in enumerate(bad["ev"]) if e["e"] in ("don", "acc")]
        k1 = next((k for k in ks if k + 1 < len(bad["ev"]) and bad["ev"][k + 1]["e"] in ("don", "acc") and
                   (bad["ev"][k]["o"], bad["ev"][k]["e"], bad["ev"][k]["b"]) != (bad["ev"][k + 1]["o"], bad["ev"][k + 1]["e"], bad["ev"][k + 1]["b"])), None)
        if k1 is not None:
            bad["ev"][k1], bad["ev"][k1 + 1] = bad["ev"][k1 + 1], bad["ev"][k1]
            bad["id"], bad["what"] = len(calls) + len(probes) + 1, "corrupted copy: two calls exchanged"
            probes.append(bad)
        bad = copy.deepcopy(big)
        kc = next((k for k, e in enumerate(bad["ev"]) if e["e"] == "cmp"), None)
        if kc is not None:
            del bad["ev"][kc]
            bad["id"], bad["what"] = len(calls) + len(probes) + 1, "corrupted copy: one complete() call removed"
            probes.append(bad)
    allc = calls + probes
    tf = core.write_json(os.path.join(ctx.work, "hbsched.json"), [{k: c[k] for k in ("id", "n", "hb", "fixed0", "fl0", "ev")} for c in allc])
    r = core.run_tlc("HbondSchedTrace", "HbondSchedTrace.cfg", ctx.work, workers=1, env={"TRACE_FILE": tf}, timeout=2400, heap="8g")
    core.need_ok(r, "HbondSchedTrace")
    ctx.add_tlc(r, "optimisation scheduler conformance (drift only)")
    v = {x[1]: x for x in r.printed if isinstance(x, list) and x and x[0] == "T"}
    if len(v) != len(allc):
        raise core.MachineryError(f"HbondSchedTrace: {len(v)} verdicts for {len(allc)} traces; {r.unparsed[:2]} {r.out[-600:]}")
    for b in probes:
        if v[b["id"]][2]:
            raise core.MachineryError(f"HbondSchedTrace accepted a {b['what']}")
    rej = [c for c in calls if not v[c["id"]][2]]
    unsettled = [c for c in calls if v[c["id"]][4]]
    ev_total = sum(len(c["ev"]) for c in calls)
    kinds = {}
    for c in calls:
        for e in c["ev"]:
            kinds[e["e"]] = kinds.get(e["e"], 0) + 1
    ctx.extra["hbond_scheduler"] = {"optimize_hydrogens_calls": len(calls), "accepted_by_HbondSched_tla": len(calls) - len(rej), "rejected": len(rej),
                                    "schedule_clause_failed": len(unsettled), "events": ev_total, "events_by_kind": kinds,
                                    "objects_max": max(c["n"] for c in calls), "corrupted_copies_rejected": len(probes)}
    for c in rej[:5]:
        k = v[c["id"]][3]
        ctx.drift.append({"hbond_scheduler_rejected": c["what"], "at_event": k, "events_around": c["ev"][max(0, k - 3):k + 2]})
    for c in unsettled[:5]:
        ctx.drift.append({"hbond_scheduler_clause_failed": c["what"]})
    ctx.traces += len(calls)


def run(ctx):
    rng = random.Random(ctx.seed)
    ctx.rule = ("corpus: ALA tripeptides with every residue type at each position (+ water) under rotating force fields and "
                "options; hydrogen-bond environments (water / serine accepting from two donors, polar peptide with waters, "
                "named protonated acids); missing and extra heavy atoms; hydrogens present; DNA/RNA strands; ligand complex; "
                "repository structures.  Distinct = distinct (structure, options); non-trivial = run with at least one "
                "deletion or rename event")
    ctx.assumptions += ["an atom's identity is the Python object; a report is the log record 'Extra atom <name> in <residue>' "
                        "immediately before the deletion", "expected atom set of a residue = the atoms of its patched topology "
                        "object (for HIS: minus the hydrogens its final tautomer does not carry)"]
    ctx.trusted += ["vlib/tracer.py (wrappers on add/remove/rename_atom, stage wrappers, log handler)", "vlib/checks/c03.py", "TLC 1.8"]
    # (M) name-set model of the optimisation classes
    r = core.run_tlc("OptClasses", "OptClasses.cfg", ctx.work, coverage=True, timeout=1200)
    core.need_ok(r, "OptClasses")
    ctx.add_tlc(r, "optimisation classes: all try_* sequences <= 4 per object, all outcomes")
    if r.invariant:
        ctx.violation({"clause": "model:" + r.invariant}, f"OptClasses violates {r.invariant}", {"tlc": r.out[-2000:]})
    for act in ("WatDonor", "WatAcceptor", "AlcDonor", "AlcAcceptor", "FlpFix", "CarFix", "WatComplete", "AlcComplete", "FlpComplete", "CarComplete"):
        if r.coverage.get(act, (0, 0))[1] == 0:
            raise core.MachineryError(f"vacuous: action {act} of OptClasses never taken")
    cfgd = os.path.join(ctx.work, "oc.cfg")
    open(cfgd, "w").write(open(os.path.join(core.SPEC, "OptClasses.cfg")).read().replace("LeakLP = FALSE", "LeakLP = TRUE"))
    r0 = core.run_tlc("OptClasses", cfgd, ctx.work, timeout=600)
    if not r0.invariant:
        raise core.MachineryError("self-test failed: LeakLP does not violate the OptClasses invariants")
    ctx.add_tlc(r0, "LeakLP deviation: violation found as required")
    # (M) the scheduler of the optimisation on every small instance, free environment
    for nobj, pat in ([(2, 1), (2, 2)] if ctx.tier == "quick" else [(2, 1), (2, 2), (3, 1)]):
        cfgs = os.path.join(ctx.work, f"hs{nobj}{pat}.cfg")
        open(cfgs, "w").write(open(os.path.join(core.SPEC, "HbondSched_mc.cfg")).read().replace("N = 3", f"N = {nobj}").replace("Pattern = 1", f"Pattern = {pat}"))
        rs = core.run_tlc("MC_HbondSched", cfgs, ctx.work, timeout=1500, heap="8g", deadlock=True)
        core.need_ok(rs, "MC_HbondSched")
        ctx.add_tlc(rs, f"optimisation scheduler: all instances with {nobj} objects, distance pattern {pat}, free environment")
        if rs.invariant:
            ctx.drift.append({"HbondSched_model_violates": rs.invariant})
    # non-vacuity: if detection could see a contact from one side only, networks overlap and TLC must say so
    cfgd = os.path.join(ctx.work, "hsdev.cfg")
    open(cfgd, "w").write(open(os.path.join(core.SPEC, "HbondSched_mc.cfg")).read().replace("Symmetric = TRUE", "Symmetric = FALSE"))
    rd = core.run_tlc("MC_HbondSched", cfgd, ctx.work, timeout=900, heap="8g", deadlock=True)
    if rd.invariant != "Disjoint":
        raise core.MachineryError(f"self-test failed: one-sided contacts do not violate Disjoint in MC_HbondSched ({rd.invariant!r})")
    ctx.add_tlc(rd, "one-sided contacts deviation: overlapping networks found as required")
    jobs = corpus(ctx, rng)
    res = core.pmap(_job, jobs, chunksize=1)
    hbsched_conformance(ctx, jobs, res)
    patch_conformance(ctx, jobs, res)
    traces = []
    for j, o in zip(jobs, res):
        ctx.evaluations += 1
        if not o["ok"]:
            if len(ctx.drift) < 20:
                ctx.drift.append({"what": j["what"], "args": j["args"], "run_failed": o["exc"], "msg": o["msg"]})
            continue
        if o.get("unobservable"):
            ctx.extra["unobservable"] = o["unobservable"]
        traces.append({"id": len(traces) + 1, "n": o["n"], "ev": o["ev"], "fin": o["fin"], "what": f"{j['what']} {' '.join(j['args'])}",
                       "labels": o["labels"], "names": o["names"]})
        if any(e["e"] != "new" for e in o["ev"]):
            ctx.nontrivial.add(traces[-1]["what"])
    ctx.extra["runs"] = len(jobs)
    ctx.extra["runs_failed"] = len(jobs) - len(traces)
    tf = core.write_json(os.path.join(ctx.work, "tr.json"), [{k: t[k] for k in ("id", "n", "ev", "fin")} for t in traces])
    cfg = os.path.join(ctx.work, "l.cfg")
    open(cfg, "w").write("SPECIFICATION TSpec\nINVARIANT AtEnd\n")
    r = core.run_tlc("LifecycleTrace", cfg, ctx.work, workers=1, env={"TRACE_FILE": tf}, timeout=3000, heap="8g")
    core.need_ok(r, "LifecycleTrace")
    ctx.add_tlc(r, "ledger validation")
    ended = set(v[1] for v in r.printed if isinstance(v, list) and v and v[0] == "END")
    if len(ended) != len(traces):
        raise core.MachineryError(f"{len(ended)} of {len(traces)} traces consumed; {r.unparsed[:2]} {r.out[-800:]}")
    ctx.traces += len(traces)
    by = {t["id"]: t for t in traces}
    for v in r.printed:
        if not isinstance(v, list) or not v or v[0] in ("END",):
            continue
        t = by.get(v[1])
        if t is None:
            continue
        kind = v[0]
        if kind == "OP":
            _, _, l, op, stage, org, nm = v
            ctx.violation({"clause": "OperationLegalInStage", "op": op, "stage": stage, "origin": org,
                           "name_class": "temp" if ("FLIP" in nm or nm.startswith("LP")) else ("H" if nm.startswith("H") else "heavy")},
                          f"{t['what']}: {op} of {org} atom {nm} in stage {stage!r} (event {l})", {"what": t["what"], "event": t["ev"][l - 1]})
        elif kind == "LEDGER":
            ctx.drift.append({"what": t["what"], "ledger": v[2:]})
        elif kind == "LOST":
            ctx.violation({"clause": "InputHeavyOnceOrReported", "name": v[3]}, f"{t['what']}: input heavy atom {v[3]} (id {v[2]}) vanished unreported",
                          {"what": t["what"]})
        elif kind in ("DUPNAME", "TEMP", "TOPOLOGY", "SURPLUS"):
            k = v[2]
            rr = t["fin"]["residues"][k - 1]
            have = sorted(t["names"].get(str(i), t["names"].get(i, "?")) for i in rr["ids"])
            extra_ = sorted(set(have) - set(rr["want"]))
            miss_ = sorted(set(rr["want"]) - set(have))
            clause = {"DUPNAME": "NamesUnique", "TEMP": "NoPlaceholderAtoms", "TOPOLOGY": "TopologyExact", "SURPLUS": "NothingBeyondTopology"}[kind]
            ctx.violation({"clause": clause, "residue": t["labels"][k - 1].split()[0], "extra": "+".join(extra_) if kind != "DUPNAME" else None,
                           "missing": "+".join(miss_) if kind == "TOPOLOGY" else None},
                          f"{t['what']}: residue {t['labels'][k-1]} has {have}; topology {rr['want']}", {"what": t["what"], "residue": t["labels"][k - 1]})
        elif kind == "INPUT":
            ctx.violation({"clause": "EveryInputHeavyAtomEntersTheModel"},
                          f"{t['what']}: the input has {v[3]} distinct heavy coordinate records, {v[2]} heavy atoms entered the model", {"what": t["what"]})
        elif kind == "PARTITION":
            ctx.violation({"clause": "Partition", "ligand": "--ligand" in t["what"], "direction": "fewer" if v[2] + v[3] < v[4] else "more-or-overlap"},
                          f"{t['what']}: matched {v[2]} + unassigned {v[3]} atoms for {v[4]} atoms in the model", {"what": t["what"]})
        elif kind == "UNACCOUNTED":
            ctx.violation({"clause": "EveryAtomWrittenOrReported"}, f"{t['what']}: {v[2]} atoms of the final model are neither matched (written) nor in the unassigned list",
                          {"what": t["what"]})
        elif kind == "WRITTEN":
            ctx.violation({"clause": "WrittenIsMatched", "ligand": "--ligand" in t["what"]},
                          f"{t['what']}: {v[2]} PQR atom lines identified for {v[3]} matched atoms", {"what": t["what"]})
    t0 = traces[0]
    ctx.sample({"what": t0["what"], "events": len(t0["ev"]), "first_events": t0["ev"][:3], "deletions": [e for e in t0["ev"] if e["e"] == "del"][:4],
                "final_counts": {k: len(v) for k, v in t0["fin"].items() if isinstance(v, list)}})
