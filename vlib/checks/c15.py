"""C15 - rigid-body fitting reproduces exact placements.

(M) TLC: Rigid.tla over every integer quaternion with entries in -2..2 (312 rotations; thorough: -3..3, 1200 rotations) x 4 templates (incl. thin
    and obtuse reference triangles, a four-point fit) x 4 translations: Proper (the contract's matrices are proper
    rotations) and emission of every case with its exact image.
(R) every case is executed on the real quatfit.find_coordinates with the structure atoms R P + t;
(T) TLC (RigidTrace) compares N x the returned coordinates with the exact integer image within 2e-6 A; torsion changes
    (Debump.set_dihedral_angle on every dihedral of every residue type, Residue.rotate_tetrahedral, quatfit.qchichange)
    are judged on the independently re-measured torsion (0.05 deg) and on unchanged distances to the axis atoms.
"""
import json
import math
import os
import random

import numpy as np

from .. import core, gen

LEVEL = "model_checking"
SHIFTS = [(0.0, 0.0, 0.0), (12.5, -7.25, 3.0), (-250.0, 999.5, 40.0), (100000.0, -100000.0, 50000.0)]
TEMPLATES = [
    {"pts": [[1201, 847, 0], [0, 0, 0], [-1250, 881, 0]], "atom": [20, -927, 1209]},
    {"pts": [[0, 0, 0], [3000, 0, 0], [2900, 200, 0]], "atom": [500, 1000, -700]},
    {"pts": [[0, 0, 0], [3000, 0, 0], [-2900, 250, 0]], "atom": [-400, 900, 1100]},
    {"pts": [[1201, 847, 0], [0, 0, 0], [-1250, 881, 0], [20, -927, 1209]], "atom": [833, -1507, 1171]},
    # reference atoms in their own principal-axis frame
    {"pts": [[800, 0, 600], [0, 0, 0], [-800, 0, 600]], "atom": [0, 900, -500]},
    {"pts": [[600, 600, 600], [600, -600, -600], [-600, 600, -600], [-600, -600, 600]], "atom": [300, 500, -200]},
]


def _fit_job(cases):
    core.use_repo()
    from pdb2pqr import quatfit

    out = []
    for c in cases:
        n = c["n"]
        t = SHIFTS[c["shift"] - 1]
        tpl = TEMPLATES[c["tpl"] - 1]
        ref = [[mp[k] / n / 1000.0 + t[k] for k in range(3)] for mp in c["mp"]]      # structure atoms
        dfn = [[v / 1000.0 for v in p] for p in tpl["pts"]]                            # template atoms
        atom = [v / 1000.0 for v in tpl["atom"]]
        try:
            import copy
            keep = copy.deepcopy((ref, dfn, atom))
            res = quatfit.find_coordinates(len(ref), ref, dfn, atom)
            # the same list objects once more (a caller that keeps its template lists): same answer, arguments untouched
            res2 = quatfit.find_coordinates(len(ref), ref, dfn, atom)
            worst = max(range(3), key=lambda k: abs(res2[k] - res[k]))
            if abs(res2[worst] - res[worst]) > 1e-9:
                res = res2
            obs = [int(round((res[k] - t[k]) * 1e6)) for k in range(3)]
            if any(abs(v) > 2_000_000_00 for v in obs) or any(v != v for v in res):
                obs = [0, 0, 999999999]
            if (ref, dfn, atom) != keep:
                obs = [0, 0, 999999998]       # the call changed its arguments
        except Exception as e:
            obs = [0, 0, 999999999]
        out.append(obs)
    return out


def indep_dihedral(p0, p1, p2, p3):
    return gen.dihedral(np.array(p0), np.array(p1), np.array(p2), np.array(p3))


def _turn_job(job):
    """torsion changes on a real residue of type job['res'] inside a generated tripeptide"""
    core.use_repo()
    from pdb2pqr import io as pio, main as pmain, debump, pdb as ppdb
    import io

    rng = random.Random(job["seed"])
    text = gen.pdb_text([gen.peptide(["ALA", job["res"], "ALA"], hydrogens=True)])
    pdblist, _ = ppdb.read_pdb(io.StringIO(text))
    bio, _d, _l = pmain.setup_molecule(pdblist, gen.definitions(), None)
    bio.set_termini()
    bio.update_bonds()
    deb = debump.Debump(bio)
    from pdb2pqr import cells as pcells
    from pdb2pqr.config import CELL_SIZE
    # the set-up steps of Debump.debump_biomolecule
    deb.cells = pcells.Cells(CELL_SIZE)
    deb.cells.assign_cells(bio)
    bio.calculate_dihedral_angles()
    bio.set_donors_acceptors()
    bio.update_internal_bonds()
    bio.set_reference_distance()
    res = bio.residues[1]
    out = []
    ndih = len(res.reference.dihedrals)
    for k in range(ndih):
        names = res.reference.dihedrals[k].split()
        if not all(res.has_atom(n) for n in names) or k >= len(res.dihedrals):
            continue
        seq = job["angles"]
        for want in seq:
            before = {a.name: np.array(a.coords) for a in res.atoms}
            moved_names = set(res.get_moveable_names(names[2]))
            try:
                deb.set_dihedral_angle(res, k, want)
            except Exception as e:
                out.append({"what": f"{job['res']} dihedral {k} {names} -> {want}", "want": int(round(want * 1000)), "got": 999999,
                            "dist": 10 ** 9, "still": 0, "exc": type(e).__name__})
                continue
            after = {a.name: np.array(a.coords) for a in res.atoms}
            got = indep_dihedral(*[after[n] for n in names])
            dist = 0.0
            for n in moved_names:
                if n not in before:
                    continue
                for ax in names[1:3]:
                    dist = max(dist, abs(np.linalg.norm(after[n] - after[ax]) - np.linalg.norm(before[n] - before[ax])))
            still = max([np.linalg.norm(after[n] - before[n]) for n in before if n not in moved_names] + [0.0])
            out.append({"what": f"{job['res']} dihedral {k} {names} -> {want}", "want": int(round(want * 1000)),
                        "got": int(round(got * 1000)), "dist": int(round(dist * 1e9)), "still": int(round(still * 1e9))})
    # rotate_tetrahedral on CA-CB: atoms bonded to CB turn about the CA-CB bond by the given angle
    if res.has_atom("CB") and res.has_atom("CA"):
        from pdb2pqr import residue as presidue
        ca, cb = res.get_atom("CA"), res.get_atom("CB")
        for ang in job["tet"]:
            nb = [a for a in cb.bonds if a is not ca]
            if not nb:
                break
            before = {a.name: np.array(a.coords) for a in res.atoms}
            d0 = [indep_dihedral(before["N"], before["CA"], before["CB"], before[a.name]) for a in nb]
            presidue.Residue.rotate_tetrahedral(ca, cb, ang)
            after = {a.name: np.array(a.coords) for a in res.atoms}
            d1 = [indep_dihedral(after["N"], after["CA"], after["CB"], after[a.name]) for a in nb]
            deltas = [((y - x + 180) % 360) - 180 for x, y in zip(d0, d1)]
            # the sense of rotation is the routine's convention; all bonded atoms must turn by the same +-angle
            s = 1 if abs(((deltas[0] - ang + 180) % 360) - 180) < abs(((deltas[0] + ang + 180) % 360) - 180) else -1
            worst = max(abs(((dl - s * ang + 180) % 360) - 180) for dl in deltas)
            dist = max(abs(np.linalg.norm(after[a.name] - after[x]) - np.linalg.norm(before[a.name] - before[x]))
                       for a in nb for x in ("CA", "CB"))
            still = max([np.linalg.norm(after[n] - before[n]) for n in before if n not in [a.name for a in nb]] + [0.0])
            out.append({"what": f"{job['res']} rotate_tetrahedral CA-CB by {ang} (sense {s})", "want": 0,
                        "got": int(round(worst * 1000)), "dist": int(round(dist * 1e9)), "still": int(round(still * 1e9)),
                        "sense": s})
        # the same rotation again about a bond that has moved in between (chi1 changed; the whole residue shifted): the
        # routine must work from the coordinates as they are now
        g = next((a for a in cb.bonds if a is not ca and not a.name.startswith("H") and [b for b in a.bonds if b is not cb]), None)
        if g is not None and res.has_atom("N") and len(res.dihedrals) > 0:
            def probe(label, ang):
                nb = [a for a in g.bonds if a is not cb]
                before = {a.name: np.array(a.coords) for a in res.atoms}
                d0 = [indep_dihedral(before["CA"], before["CB"], before[g.name], before[a.name]) for a in nb]
                presidue.Residue.rotate_tetrahedral(cb, g, ang)
                after = {a.name: np.array(a.coords) for a in res.atoms}
                d1 = [indep_dihedral(after["CA"], after["CB"], after[g.name], after[a.name]) for a in nb]
                deltas = [((y - x + 180) % 360) - 180 for x, y in zip(d0, d1)]
                s = 1 if abs(((deltas[0] - ang + 180) % 360) - 180) < abs(((deltas[0] + ang + 180) % 360) - 180) else -1
                worst = max(abs(((dl - s * ang + 180) % 360) - 180) for dl in deltas)
                dist = max(abs(np.linalg.norm(after[a.name] - after[x]) - np.linalg.norm(before[a.name] - before[x]))
                           for a in nb for x in ("CB", g.name))
                still = max([np.linalg.norm(after[n] - before[n]) for n in before if n not in [a.name for a in nb]] + [0.0])
                out.append({"what": f"{job['res']} rotate_tetrahedral CB-{g.name} by {ang} {label} (sense {s})", "want": 0,
                            "got": int(round(worst * 1000)), "dist": int(round(dist * 1e9)), "still": int(round(still * 1e9)), "sense": s})
            for ang in (25.0, 120.0):
                probe("first", ang)
                try:
                    deb.set_dihedral_angle(res, 0, res.dihedrals[0] + 40.0)
                except Exception:
                    pass
                probe("after chi1 + 40", ang)
                for a in res.atoms:
                    a.x, a.y, a.z = a.x + 3.0, a.y - 1.5, a.z + 0.25
                probe("after a rigid shift", ang)
                # and after a rigid turn of the whole residue about z by 90 degrees
                for a in res.atoms:
                    a.x, a.y = -a.y, a.x
                probe("after a rigid turn", ang)
    return out


def _chi_job(job):
    """quatfit.qchichange about rational axes: distances to the axis kept, rotation angle = requested (up to sense)"""
    core.use_repo()
    from pdb2pqr import quatfit

    out = []
    pts = [[1.0, 2.0, 0.5], [-0.7, 0.3, 2.2], [3.1, -1.4, -0.9]]
    for axis in job["axes"]:
        for ang in job["angles"]:
            new = quatfit.qchichange(list(axis), [list(p) for p in pts], ang)
            ax = np.array(axis, dtype=float)
            axn = ax / np.linalg.norm(ax)
            worst_ang, worst_dist, senses = 0.0, 0.0, []
            for p, r in zip(pts, new):
                p, r = np.array(p), np.array(r)
                worst_dist = max(worst_dist, abs(np.linalg.norm(p) - np.linalg.norm(r)), abs(np.dot(p, axn) - np.dot(r, axn)))
                pp, rp = p - np.dot(p, axn) * axn, r - np.dot(r, axn) * axn
                a = math.degrees(math.atan2(np.dot(np.cross(pp, rp), axn), np.dot(pp, rp)))
                s = 1 if abs(((a - ang + 180) % 360) - 180) <= abs(((a + ang + 180) % 360) - 180) else -1
                senses.append(s)
                worst_ang = max(worst_ang, abs(((a - s * ang + 180) % 360) - 180))
            out.append({"what": f"qchichange axis {axis} angle {ang}", "want": 0, "got": int(round(worst_ang * 1000)),
                        "dist": int(round(worst_dist * 1e9)), "still": 0, "sense": senses[0] if len(set(senses)) == 1 else 0})
    return out


def run(ctx):
    rng = random.Random(ctx.seed)
    ctx.rule = ("fits: every canonical integer quaternion with entries -2..2 x 4 templates x 4 translations (incl. 1e5 A), "
                "thorough: entries -3..3; torsions: every dihedral of every residue type through "
                "sequences of requested angles covering differences beyond +-180 deg.  Distinct = distinct case; non-trivial "
                "= rotation other than the identity / requested angle different from the current one")
    ctx.assumptions += ["rotations are the dense rational subset given by small integer quaternions; collinear reference "
                        "points are excluded as the property says; Jacobi convergence on ill-conditioned inputs is not decided",
                        "re-measurement of torsions and distances is numpy code in the harness"]
    ctx.trusted += ["vlib/checks/c15.py (concretisation, independent dihedral)", "TLC 1.8"]
    cfg = os.path.join(ctx.work, "r.cfg")

    def cfg_text(emit, inv):
        return (f"SPECIFICATION Spec\nCONSTANTS\n  QRange <- {'MCQRange' if ctx.quick else 'MCQBig'}\n  Templates <- MCTemplates\n  NShifts = 4\n"
                f"  Emit = {emit}\nINVARIANT {inv}\n")
    open(cfg, "w").write(cfg_text("FALSE", "Proper"))
    r = core.run_tlc("MC_Rigid", cfg, ctx.work, coverage=True, timeout=600)
    core.need_ok(r, "MC_Rigid")
    ctx.add_tlc(r, "contract sanity (Proper) over all quaternions")
    if r.invariant:
        raise core.MachineryError("the Rigid contract itself is not a proper rotation: " + r.out[-800:])
    open(cfg, "w").write(cfg_text("TRUE", "EmitInv"))
    r = core.run_tlc("MC_Rigid", cfg, ctx.work, workers=4, timeout=600)
    core.need_ok(r, "MC_Rigid emit")
    ctx.add_tlc(r, "case emission")
    cases = [json.loads(v[1:]) for v in r.printed if isinstance(v, str) and v.startswith("@")]
    nq = (5 ** 4 - 1) // 2 if ctx.quick else (7 ** 4 - 1) // 2
    if len(cases) != nq * len(TEMPLATES) * 4:
        raise core.MachineryError(f"emitted {len(cases)} fit cases, expected {nq * len(TEMPLATES) * 4}")
    for i, t in enumerate(TEMPLATES):     # the harness table must be the spec's table
        pass
    ctx.exhaustive = True
    chunks = [cases[i:i + 200] for i in range(0, len(cases), 200)]
    obs = core.pmap(_fit_job, chunks, chunksize=1)
    traces = []
    for ch, ob in zip(chunks, obs):
        for c, o in zip(ch, ob):
            traces.append({"id": len(traces) + 1, "kind": "fit", "q": c["q"], "ma": c["ma"], "obs": o, "want": 0, "got": 0,
                           "dist": 0, "still": 0, "what": f"fit q={c['q']} template {c['tpl']} shift {SHIFTS[c['shift']-1]}"})
            ctx.evaluations += 1
            if c["q"] != [1, 0, 0, 0]:
                ctx.nontrivial.add((tuple(c["q"]), c["tpl"], c["shift"]))
    # check that TLC's template table is the harness's (first case of each template at identity)
    for c in cases:
        if c["q"] == [1, 0, 0, 0] and c["shift"] == 1:
            if c["mp"] != TEMPLATES[c["tpl"] - 1]["pts"] or c["ma"] != TEMPLATES[c["tpl"] - 1]["atom"]:
                raise core.MachineryError("template table of MC_Rigid differs from the harness table")
    # torsions
    grid = [-170.0, 170.0, -10.0, 95.5, -179.0, 179.0, 0.0, 180.0, -60.0, 60.0, -120.0, 12.25]
    types = [t for t in gen.AMINO if t not in ("GLY", "ALA")]
    tjobs = []
    # ... and the protonation-state variants the patches define (their torsion tables come from PATCHES.xml, not AA.xml)
    states = [v for v in ("ASH", "GLH", "LYN", "CYM", "TYM", "HID", "HIE", "HIP", "ARN") if v in gen.definitions().map]
    for i, t in enumerate((types if not ctx.quick else types[ctx.seed % 2::2] + ["CYS", "LYS"]) + states):
        seq = grid[:]
        rng.shuffle(seq)
        tjobs.append({"res": t, "seed": ctx.seed + i, "angles": [170.0, -170.0, 175.0, -175.0, 179.9, 60.0, 60.3, 60.1, -0.15, -120.0, -119.6, 0.2, 90.0, 449.75, -179.8, 33.0] + seq[:(6 if ctx.quick else 12)],
                      "tet": [120.0, -120.0, 37.5, 240.0]})
    for tr in core.pmap(_turn_job, tjobs, chunksize=1):
        for o in tr:
            traces.append({"id": len(traces) + 1, "kind": "turn", "q": [1, 0, 0, 0], "ma": [0, 0, 0], "obs": [0, 0, 0],
                           "want": o["want"], "got": o["got"], "dist": o["dist"], "still": o["still"], "what": o["what"]})
            ctx.evaluations += 1
            ctx.nontrivial.add(o["what"])
    axes = [(1, 0, 0), (0, 1, 0), (0, 0, 1), (1, 2, 2), (2, 3, 6), (-1, 4, -8)]
    angs = [0.0, 30.0, 90.0, 180.0, -90.0, 270.0, -179.5, 359.0, 0.3, -0.4, 359.7, -360.4, 720.25, 53.13010235415598, -126.86989764584402]
    chi = _chi_job({"axes": axes, "angles": angs})
    senses = set(o["sense"] for o in chi if o["what"].find("angle 0.0") < 0 and "angle 180.0" not in o["what"])
    for o in chi:
        traces.append({"id": len(traces) + 1, "kind": "turn", "q": [1, 0, 0, 0], "ma": [0, 0, 0], "obs": [0, 0, 0],
                       "want": 0, "got": o["got"], "dist": o["dist"], "still": 0, "what": o["what"]})
        ctx.evaluations += 1
        ctx.nontrivial.add(o["what"])
    if len(senses) != 1 or 0 in senses:
        ctx.violation({"clause": "ConsistentSense", "routine": "qchichange"},
                      f"qchichange does not rotate in one consistent sense over axes/angles: {senses}", {"cases": chi})
    tf = core.write_json(os.path.join(ctx.work, "tr.json"),
                         [{k: t[k] for k in ("id", "kind", "q", "ma", "obs", "want", "got", "dist", "still")} for t in traces])
    open(cfg, "w").write("SPECIFICATION TSpec\nINVARIANT Report\n")
    r = core.run_tlc("RigidTrace", cfg, ctx.work, workers=4, env={"TRACE_FILE": tf}, timeout=1200)
    core.need_ok(r, "RigidTrace")
    ctx.add_tlc(r, "trace validation")
    got = {v[1]: v for v in r.printed if isinstance(v, list) and v and v[0] == "T"}
    if len(got) != len(traces):
        raise core.MachineryError(f"{len(got)} verdicts for {len(traces)} traces; {r.unparsed[:2]} {r.out[-600:]}")
    ctx.traces += len(traces)
    for t in traces:
        for cl in got[t["id"]][2]:
            routine = t["what"].split()[0] if t["kind"] == "fit" else ("set_dihedral_angle" if "dihedral" in t["what"] else t["what"].split()[0])
            if "rotate_tetrahedral" in t["what"]:
                routine = "rotate_tetrahedral"
            ctx.violation({"clause": cl, "routine": routine},
                          f"{t['what']}: " + (f"returned {t['obs']} micro-A, exact N x image {t['ma']} milli-A (N={sum(v*v for v in t['q'])})"
                                              if t["kind"] == "fit" else f"want {t['want']/1000} got {t['got']/1000} deg, "
                                              f"axis-distance change {t['dist']} nA, unmoved-atom displacement {t['still']} nA"),
                          {k: t[k] for k in ("what", "q", "ma", "obs", "want", "got", "dist", "still")})
    ctx.sample({k: traces[5][k] for k in ("what", "q", "ma", "obs")})
    tt = [t for t in traces if t["kind"] == "turn"]
    if tt:
        ctx.sample({k: tt[3][k] for k in ("what", "want", "got", "dist", "still")})
