"""C14 - neighbour search returns every atom within range.

(M) TLC: Cells.tla over all operation histories <= MaxOps on three atoms around cell borders
    (Consistent, QueryComplete, QuerySound), the key-arithmetic covering lemma on a coordinate grid;
    with RawMove allowed TLC must find the counterexample (non-vacuity).
(R) TLC-simulated histories and the coordinate grid are replayed on the real cells.Cells with real
    Atom objects; the recorded events are validated by TLC (CellsTrace).
(T) real pipeline runs are traced (cell events, coordinate assignments, atom creation/removal) and
    every get_near_cells call is judged by TLC against the positions it tracked.
"""
import glob
import json
import os
import random

from .. import core, gen

LEVEL = "model_checking"


def mc_cfg(size, positions, raw, maxops, emit, invs, atoms='{"a1", "a2", "a3"}', view=True):
    s = (f"SPECIFICATION Spec\nCONSTANTS\n  Atoms = {atoms}\n  Size = {size}\n  Positions <- {positions}\n"
         f"  AllowRawMove = {raw}\n  MaxOps = {maxops}\n  Emit = {emit}\n")
    if view:
        s += "VIEW view\n"
    for i in invs:
        s += f"INVARIANT {i}\n"
    return s


# ------------------------------------------------------------------ replay of histories on the real class
class _Bio:
    def __init__(self, atoms):
        self.atoms = atoms


def _real_atom(p, k=0):
    """a real Atom built the way the reader builds it (from an ATOM record).  Atoms are objects: what they are called does not
    matter to a cell list, so the first two atoms of a history carry the same chain / residue / atom name (as the copies of a
    concatenated or TER-separated homo-oligomer do) and the others differ."""
    core.use_repo()
    from pdb2pqr import structures, pdb as ppdb

    lab = max(k - 1, 0)
    rec = {"rec": "ATOM", "name": "CA", "resname": "ALA", "chain": "A", "resseq": 1 + lab, "icode": "", "xyz": (0.0, 0.0, 0.0)}
    a = structures.Atom(ppdb.ATOM(gen.pdb_line(rec, 1)), "ATOM", None)
    a.x, a.y, a.z = p[0] / 1000.0, p[1] / 1000.0, p[2] / 1000.0
    a.cell = None
    return a


def replay_history(h, size, offset=(0, 0, 0)):
    """Execute one TLC-generated history on a real Cells object; return the recorded trace."""
    core.use_repo()
    from pdb2pqr import cells
    from ..tracer import Tracer

    tr = Tracer()
    tr.qmode = "cell"
    names = sorted(h["pos0"])
    atoms = {}
    for k_, n in enumerate(names):
        p = [h["pos0"][n][i] + offset[i] for i in range(3)]
        atoms[n] = _real_atom(p, k_)
        tr.aid(atoms[n])
    tr.install({"cells", "coords"})
    try:
        c = cells.Cells(size)
        for op in h["hist"]:
            a = atoms[op["a"]]
            # in a replayed history an atom is part of the structure exactly while it is binned
            if op["op"] == "add":
                tr.flush_moves()
                tr.emit(e="new", a=tr.aid(a), p=tr.qpos(a))
                c.add_cell(a)
            elif op["op"] == "remove":
                c.remove_cell(a)
                tr.emit(e="del", a=tr.aid(a))
            elif op["op"] in ("move", "rawmove", "place"):
                p = [op["p"][i] + offset[i] for i in range(3)]
                if op["op"] == "move":
                    c.remove_cell(a)
                a.x, a.y, a.z = p[0] / 1000.0, p[1] / 1000.0, p[2] / 1000.0
                if op["op"] == "move":
                    c.add_cell(a)
            # query every atom of the structure after every operation
            for n in names:
                if atoms[n].cell is not None:
                    c.get_near_cells(atoms[n])
    finally:
        tr.flush_moves()
        tr.uninstall()
    return segments(tr.events)


def segments(events):
    """Split a recorded event stream into one trace per Cells object (see CellsTrace.tla)."""
    pos, present = {}, set()
    segs = {}
    last_cell_ev = {}
    for ev in events:
        e = ev["e"]
        if e == "new":
            present.add(ev["a"])
            pos[ev["a"]] = ev["p"]
        elif e == "del":
            present.discard(ev["a"])
        elif e == "set":
            pos[ev["a"]] = ev["p"]
        if e in ("new", "del", "set"):
            if ev.get("p") is None and e != "del":
                continue
            for s in segs.values():
                s["ev"].append({"e": e, "a": ev["a"], "p": ev.get("p") or [0, 0, 0], "fr": ev.get("fr", "").split(" < ")[0],
                                "frs": ev.get("frs") or ev.get("fr", "")})
        elif e == "cells":
            segs[ev["c"]] = {"size": ev["size"], "ev": [{"e": "new", "a": a, "p": pos[a], "fr": "snapshot"}
                                                        for a in sorted(present) if pos.get(a)]}
        elif e == "assign":
            segs[ev["c"]]["ev"].append({"e": "reset", "a": 0, "p": [0, 0, 0], "fr": ""})
        elif e == "detect":
            if ev["want"]:
                segs[ev["c"]]["ev"].append({"e": "detect", "a": ev["a"], "p": [0, 0, 0], "fr": "optimize_hydrogens", "frs": "optimize_hydrogens",
                                            "want": ev["want"], "got": ev["got"]})
                last_cell_ev[ev["c"]] = len(segs[ev["c"]]["ev"])
        elif e in ("add", "rem", "query"):
            s = segs[ev["c"]]
            d = {"e": e, "a": ev["a"], "p": ev.get("p") or [0, 0, 0], "fr": ev.get("fr", "").split(" < ")[0],
                 "frs": ev.get("frs") or ev.get("fr", "")}
            if e == "add":
                d["key"] = ev["key"]
            if e == "query":
                d["res"] = ev["res"]
            s["ev"].append(d)
            last_cell_ev[ev["c"]] = len(s["ev"])
    out = []
    for c, s in segs.items():
        s["ev"] = s["ev"][:last_cell_ev.get(c, 0)]
        if s["ev"]:
            out.append(s)
    return out


def _work_hist(args):
    hs, size = args
    out = []
    for h, off in hs:
        out += replay_history(h, size, off)
    return out


def _work_run(args):
    path, opts = args
    from .. import runner

    wd = os.path.join(core.VERIF, ".work", f"c14-{os.getpid()}")
    os.makedirs(wd, exist_ok=True)
    outp = os.path.join(wd, "out.pqr")
    if "@again" in opts:
        # the heavy atoms of a first run's result are the input: the debumper starts from its own best angles, so a scan
        # that ends without improvement (and puts the residue back) is reached
        opts = [o for o in opts if o != "@again"]
        r0 = runner.run(opts + [f"--pdb-output={os.path.join(wd, 'first_H.pdb')}", path, os.path.join(wd, "first.pqr")])
        if r0["ok"]:
            heavy = [ln for ln in open(os.path.join(wd, "first_H.pdb")).read().split("\n")
                     if not (ln.startswith(("ATOM", "HETATM")) and ln[12:16].strip().lstrip("0123456789").startswith("H"))]
            path = os.path.join(wd, "again.pdb")
            open(path, "w").write("\n".join(heavy))
    r = runner.run(opts + [path, outp], groups={"cells", "coords", "atoms"}, qmode="cell")
    segs = segments(r["tracer"].events)
    for s in segs:
        s["origin"] = f"{os.path.basename(path)} {' '.join(opts)}"
    import shutil
    shutil.rmtree(wd, ignore_errors=True)
    return segs, r["exc_type"], r["tracer"].unobservable


# ------------------------------------------------------------------ TLC validation of recorded traces
def validate(ctx, traces, size, label):
    """traces: list of {id, n, ev}.  returns dict id -> list of verdict tuples"""
    if not traces:
        return {}
    for t in traces:
        t["n"] = max([e["a"] for e in t["ev"]] + [b for e in t["ev"] for b in e.get("res", []) + e.get("want", []) + e.get("got", [])] + [1])
        for e in t["ev"]:
            e.setdefault("key", [0, 0, 0])
            e.setdefault("res", [])
            e.setdefault("want", [])
            e.setdefault("got", [])
    tf = core.write_json(os.path.join(ctx.work, f"cells-{label}.json"),
                         [{"id": t["id"], "n": t["n"], "ev": [{k: e[k] for k in ("e", "a", "p", "key", "res", "want", "got")}
                                                              for e in t["ev"]]} for t in traces])
    cfg = os.path.join(ctx.work, f"cells-{label}.cfg")
    open(cfg, "w").write(f"SPECIFICATION TSpec\nCONSTANTS\n  Size = {size}\nINVARIANT Done\n")
    r = core.run_tlc("CellsTrace", cfg, ctx.work, workers=1, env={"TRACE_FILE": tf}, timeout=3000, heap="8g")
    core.need_ok(r, f"CellsTrace/{label}")
    ctx.add_tlc(r, f"trace validation {label} (size {size})")
    got = {t["id"]: [] for t in traces}
    ended = set()
    for v in r.printed:
        if not isinstance(v, list) or not v:
            continue
        if v[0] == "END":
            ended.add(v[1])
        elif v[0] in ("K", "P", "R", "X", "Q", "S", "D"):
            got[v[1]].append(v)
    missing = [t["id"] for t in traces if t["id"] not in ended]
    if missing:
        raise core.MachineryError(f"CellsTrace/{label}: traces not consumed to the end: {missing[:5]} "
                                  f"unparsed={r.unparsed[:2]}")
    ctx.traces += len(traces)
    return got


def attribute(t, l, a, b):
    """Why was atom b (in range of a) not returned at event index l (1-based)?  Structural cause."""
    ev = t["ev"]

    def state(x):
        binned, moved_after, fr_unbin, fr_move = False, False, ("never-added", ""), ("", "")
        for e in ev[:l - 1]:
            if e["e"] == "reset":
                binned, moved_after, fr_unbin = False, False, ("reset", "")
            elif e["a"] != x:
                continue
            elif e["e"] == "add":
                binned, moved_after = True, False
            elif e["e"] == "rem":
                binned, fr_unbin = False, (e["fr"], e.get("frs", ""))
            elif e["e"] == "new":
                if not binned:
                    fr_unbin = ("created:" + e["fr"], e.get("frs", ""))
            elif e["e"] == "set" and binned:
                moved_after, fr_move = True, (e["fr"], e.get("frs", ""))
        return binned, moved_after, fr_unbin, fr_move

    bb, bm, bu, bf = state(b)
    if not bb:
        return "unbinned", bu
    if bm:
        return "stale", bf
    ab, am, au, af = state(a)
    if not ab:
        return "query-atom-unbinned", au
    if am:
        return "query-atom-stale", af
    return "lookup", ("Cells", "")


def judge(ctx, traces, verdicts, origin_default):
    for t in traces:
        origin = t.get("origin", origin_default)
        for v in verdicts[t["id"]]:
            kind, l = v[0], v[2]
            if kind == "Q":
                a, miss, ghosts = v[3], v[4], v[5]
                for b in miss:
                    cause, (culprit, stack) = attribute(t, l, a, b)
                    ctx.violation({"invariant": "QueryComplete", "cause": cause, "culprit": culprit, "stack": stack or culprit},
                                  f"{origin}: query #{l} of atom {a} ({t['ev'][l-1].get('fr','')}) misses in-range atom {b}",
                                  {"origin": origin, "event": l, "atom": a, "missed": b,
                                   "window": t["ev"][max(0, l - 6):l] if len(t["ev"]) < 400 else None,
                                   "history": t.get("hist")})
                for b in ghosts:
                    fr, stack = "", ""
                    for e in t["ev"][:l - 1]:
                        if e["e"] == "del" and e["a"] == b:
                            fr, stack = e["fr"], e.get("frs", "")
                    ctx.violation({"invariant": "QuerySound", "cause": "ghost", "culprit": fr, "stack": stack or fr},
                                  f"{origin}: query #{l} of atom {a} returns atom {b} that left the structure in {fr}",
                                  {"origin": origin, "event": l, "atom": a, "ghost": b})
            elif kind == "D":
                ctx.violation({"invariant": "DetectionUsesQueryOfEachAtom", "cause": "partner-not-considered", "culprit": "optimize_hydrogens"},
                              f"{origin}: hydrogen-bond detection recorded no potential bond from atom {v[3]} to eligible atoms {v[4][:6]} "
                              f"closer than 4.3 A, although both are filed in the cell of their position",
                              {"origin": origin, "event": l, "atom": v[3], "lost": v[4]})
            elif kind == "S":
                for b in v[3]:
                    fr, stack = "", ""
                    for e in t["ev"]:
                        if e["a"] == b and e["e"] == "add":
                            fr, stack = "", ""
                        elif e["a"] == b and e["e"] == "set":
                            fr, stack = e.get("fr", ""), e.get("frs", "")
                    ctx.violation({"invariant": "Consistent", "cause": "stale-at-end", "culprit": fr, "stack": stack or fr},
                                  f"{origin}: when the cell list was last used atom {b} was filed in the cell of an earlier position "
                                  f"(moved by {fr} without remove_cell / add_cell)", {"origin": origin, "atom": b})
            elif kind == "K":
                ctx.violation({"invariant": "KeyConformance", "cause": "arithmetic", "culprit": "Cells.add_cell"},
                              f"{origin}: add_cell put atom {v[3]} at {t['ev'][l-1]['p']} into cell {v[4]}, "
                              f"the spec's key is {v[5]}",
                              {"origin": origin, "event": t["ev"][l - 1], "history": t.get("hist")})
            else:
                ctx.drift.append({"origin": origin, "kind": kind, "event": l, "fr": t["ev"][l - 1].get("fr")})


# ------------------------------------------------------------------ main
def apalache_lemma(ctx):
    """The covering lemma for all integers (CellsLemma.tla, Apalache, length 0): two coordinates closer than the cell size have
    keys at most one cell apart, for sizes 2 and 5.  The key arithmetic is the text of Cells.tla (compared here), which the
    key-grid leg compares with the real add_cell.  A plausible wrong negative branch (BrokenLemma) must be refuted."""
    import re, subprocess, shutil, time
    norm = lambda t: re.sub(r"\s+", " ", t).replace("Size", "s").replace("Key1(m, s)", "Key1(m)").strip()
    def body(path, name):
        m = re.search(r"^" + name + r"\([^)]*\)\s*==(.*?)(?:\\\*.*)?$", open(path).read(), re.M)
        return norm(m.group(1)) if m else None
    a, b = os.path.join(core.SPEC, "Cells.tla"), os.path.join(core.SPEC, "CellsLemma.tla")
    for op in ("Trunc", "Key1"):
        if body(a, op) is None or body(a, op) != body(b, op):
            raise core.MachineryError(f"CellsLemma.tla and Cells.tla define {op} differently: {body(a, op)!r} / {body(b, op)!r}")
    exe = shutil.which("apalache-mc")
    if exe is None:
        ctx.extra["apalache_covering_lemma"] = "apalache-mc not found: not run"
        return
    out = {}
    for inv, want in (("Lemma", True), ("Aligned", True), ("BrokenLemma", False)):
        od = os.path.join(ctx.work, f"apa-{inv}")
        t0 = time.time()
        try:
            p = subprocess.run([exe, "check", f"--inv={inv}", "--length=0", f"--out-dir={od}", "CellsLemma.tla"], cwd=core.SPEC,
                               capture_output=True, text=True, timeout=600)
        except subprocess.TimeoutExpired:
            raise core.MachineryError(f"apalache-mc timed out on {inv}")
        shutil.rmtree(od, ignore_errors=True)
        ok = "EXITCODE: OK" in p.stdout
        err = "EXITCODE: ERROR (12)" in p.stdout
        if not ok and not err:
            raise core.MachineryError(f"apalache-mc failed on {inv}: {p.stdout[-600:]} {p.stderr[-300:]}")
        out[inv] = {"holds": ok, "wall_s": round(time.time() - t0, 1)}
        if want and not ok:
            ctx.violation({"invariant": "CoveringLemma:" + inv, "cause": "model"},
                          f"CellsLemma.{inv} has a counterexample: coordinates within range whose cells are not adjacent", {"apalache": p.stdout[-1500:]})
        if not want and ok:
            raise core.MachineryError("self-test failed: Apalache does not refute BrokenLemma")
    ctx.extra["apalache_covering_lemma"] = dict(out, scope="all integer coordinates (milli-A), cell sizes 2 and 5, one axis")


def run(ctx):
    rng = random.Random(ctx.seed)
    ctx.rule = ("(M) all histories <= MaxOps of add/remove/move/place on 3 atoms over 10 lattice positions around "
                "cell borders, sizes 2 and 5; 1-D key grid.  (R) TLC-simulated histories (depth 12) and the grid "
                "replayed on the real Cells with a query of every atom after every operation, at the origin and at "
                "large offsets.  (T) traced pipeline runs.  Non-trivial/distinct = distinct (history, offset) with "
                "at least one move across a cell border, plus distinct (run, Cells object) traces with queries.")
    ctx.trusted += ["vlib/tracer.py (wrappers on Cells methods, Atom.__setattr__, Residue.add/remove_atom)",
                    "vlib/checks/c14.py segments/attribute", "TLC 1.8"]
    ctx.assumptions += ["coordinates are truncated to 0.001 A (keeping int(x) and sign exact); in traces 'in range' means "
                        "distance < cell size - 0.003 A on the truncated coordinates, so truncation cannot create a miss",
                        "an atom belongs to the structure from Residue.add_atom until Residue.remove_atom"]
    apalache_lemma(ctx)
    maxops = 4 if ctx.quick else 5
    cfg = os.path.join(ctx.work, "mc.cfg")
    sizes = [2, 5]
    for size in sizes:
        mo = maxops if size == 2 or not ctx.quick else 3
        open(cfg, "w").write(mc_cfg(size, "MCPositions", "FALSE", mo, "FALSE",
                                    ["Consistent", "QueryComplete", "QuerySound"]))
        r = core.run_tlc("MC_Cells", cfg, ctx.work, timeout=3000, heap="8g")
        core.need_ok(r, f"MC_Cells size {size}")
        ctx.add_tlc(r, f"histories<= {mo} size {size}")
        if r.invariant:
            ctx.violation({"invariant": r.invariant, "cause": "model"}, f"Cells model violates {r.invariant} (size {size})",
                          {"tlc": r.out[-3000:]})
        open(cfg, "w").write(mc_cfg(size, "GridPositions", "FALSE", 0, "FALSE", ["Covering"], atoms='{"a1"}', view=False))
        r = core.run_tlc("MC_Cells", cfg, ctx.work, timeout=600)
        core.need_ok(r, f"MC_Cells grid {size}")
        ctx.add_tlc(r, f"covering lemma on grid, size {size}")
        if r.invariant:
            ctx.violation({"invariant": "Covering", "cause": "model"}, f"key arithmetic violates the covering lemma (size {size})",
                          {"tlc": r.out[-3000:]})
    # non-vacuity: the discipline matters
    open(cfg, "w").write(mc_cfg(2, "MCPositions", "TRUE", 3, "FALSE", ["Consistent", "QueryComplete"]))
    r = core.run_tlc("MC_Cells", cfg, ctx.work, timeout=600)
    if not r.invariant:
        raise core.MachineryError("self-test failed: RawMove does not violate Consistent/QueryComplete")
    ctx.add_tlc(r, "RawMove allowed: violation found as required")

    # (R) simulated histories replayed on the real class
    n_sim = 200 if ctx.quick else 1500
    tid = 0
    for size in sizes:
        open(cfg, "w").write(mc_cfg(size, "MCPositions", "FALSE", 12, "TRUE", ["EmitInv"], view=False))
        r = core.run_tlc("MC_Cells", cfg, ctx.work, workers=1, simulate=f"num={max(20, n_sim // 8)}", depth=14,
                         seed=ctx.seed + size, timeout=1200)
        core.need_ok(r, "MC_Cells simulate")
        ctx.add_tlc(r, f"simulation of {n_sim} behaviours size {size}")
        hists = [json.loads(v[1:]) for v in r.printed if isinstance(v, str) and v.startswith("@")]
        if len(hists) < n_sim:
            raise core.MachineryError(f"simulation emitted only {len(hists)} behaviours")
        # TLC prints every candidate successor of the last step; keep n_sim spread over the run
        hists = hists[::max(1, len(hists) // n_sim)][:n_sim]
        # grid histories: every grid coordinate on every axis, neighbours one cell apart
        grid = []
        g1 = [100 * i for i in range(-120, 121)] + [-1, 1, 999, 1001, -999, -1001]
        step = 1 if not ctx.quick else 3
        for x in g1[::step]:
            for ax in range(3):
                p = [0, 0, 0]
                p[ax] = x
                qn = list(p)
                qn[ax] = x + size * 1000 - 1
                qm = list(p)
                qm[ax] = x - size * 1000 + 1
                grid.append({"pos0": {"a1": p, "a2": qn, "a3": qm},
                             "hist": [{"op": "add", "a": "a1", "p": p}, {"op": "add", "a": "a2", "p": qn},
                                      {"op": "add", "a": "a3", "p": qm}]})
        offsets = [(0, 0, 0), (-20000000, 99998000, 4000), (7000, -3000, -99999000)]
        jobs = [(h, off) for h in hists for off in (offsets if not ctx.quick else offsets[:2])]
        jobs += [(h, (0, 0, 0)) for h in grid]
        chunks = [jobs[i:i + 60] for i in range(0, len(jobs), 60)]
        res = core.pmap(_work_hist, [(ch, size) for ch in chunks], chunksize=1)
        traces = []
        k = 0
        for ch, segs in zip(chunks, res):
            for (h, off), s in zip(ch, segs):
                tid += 1
                s["id"] = tid
                s["hist"] = {"pos0": h["pos0"], "ops": h["hist"], "offset": off}
                s["origin"] = f"history replay size {size}"
                traces.append(s)
                ctx.evaluations += 1
                if any(o["op"] == "move" for o in h["hist"]) or len(h["hist"]) == 3:
                    ctx.nontrivial.add((size, json.dumps(h["hist"], sort_keys=True), off))
        if traces:
            ctx.sample({"history": traces[0]["hist"], "recorded_events": traces[0]["ev"][:6]})
        v = validate(ctx, traces, size, f"hist{size}")
        judge(ctx, traces, v, f"history replay size {size}")

    # (T) traced pipeline runs
    data = os.path.join(core.REPO, "tests", "data")
    runs = [(os.path.join(data, "1AJJ.pdb"), ["--ff=AMBER"]),
            (os.path.join(data, "cterm_hid.pdb"), ["--ff=PARSE"]),
            (os.path.join(data, "5vav_cyclic_peptide.pdb"), ["--ff=AMBER"])]      # has atoms with a coordinate of exactly 0.000
    runs += [(os.path.join(data, "5vav_cyclic_peptide.pdb"), ["--ff=AMBER", "--titration-state-method=propka", "--with-ph=7"])]   # hydrogens in the input, stripped between the debump passes
    # resolved acids and other inputs that reach rarely used optimisation branches
    from .. import corpus as shared
    for n, j in enumerate([j for j in shared.variants(True, random.Random(ctx.seed + 9)) if any(k in j["what"] for k in ("long C", "named acids", "exchanged", "alternative spelling", "half-the-hydrogens"))]):
        pth = os.path.join(ctx.work, f"variant{n}.pdb")
        os.makedirs(ctx.work, exist_ok=True)
        open(pth, "w").write(j["text"])
        runs.append((pth, j["args"]))
    # hard clashes (waters on the positions of future hydrogens): the debumper scans, fails, restores
    from .c04 import clash_inputs
    hard = [j for j in clash_inputs(ctx, random.Random(ctx.seed + 5)) if j.get("light")]
    os.makedirs(ctx.work, exist_ok=True)
    for n, j in enumerate(hard[:(24 if ctx.quick else 200)]):
        pth = os.path.join(ctx.work, f"clash{n}.pdb")
        open(pth, "w").write(j["text"])
        runs.append((pth, ["--ff=AMBER", "--noopt"]))
    if not ctx.quick:
        runs += [(os.path.join(data, "1BX8.pdb"), ["--ff=CHARMM"]),
                 (os.path.join(data, "5vav_cyclic_peptide.pdb"), ["--ff=AMBER", "--noopt"]),
                 (os.path.join(data, "1A1P.pdb"), ["--ff=SWANSON", "--nodebump"]),
                 (os.path.join(data, "1K1I.pdb"), ["--ff=AMBER"])]
    # a clash no rotation can improve: a water on the CA->CB axis beyond CB (the scan of chi1 ends without improvement)
    from .. import gen
    import numpy as np
    types = [x for x in gen.AMINO if x not in ("GLY", "ALA", "PRO")]
    for n, x in enumerate(types if not ctx.quick else types[ctx.seed % 2::2]):
        pep = gen.peptide(["ALA", x, "ALA"])
        by = {a["name"]: a["xyz"] for a in pep if a["res_index"] == 1}
        u = (by["CB"] - by["CA"]) / np.linalg.norm(by["CB"] - by["CA"])
        for d in ((1.3,) if ctx.quick else (1.2, 1.3, 1.45)):
            pth = os.path.join(ctx.work, f"axis{n}-{d}.pdb")
            open(pth, "w").write(gen.pdb_text([pep, gen.water(tuple(by["CB"] + d * u), chain="W", resseq=500)]))
            runs.append((pth, ["--ff=AMBER", "--noopt"]))
            runs.append((pth, ["--ff=AMBER", "--noopt", "@again"]))
    # the same structures at other places of the grid (rigid translations): which atoms share a block of cells changes
    # with the position, the answers and the detected partners must not
    from .c03 import environments
    trng = random.Random(ctx.seed + 21)

    def shifted(text, t):
        out_ = []
        for ln in text.split("\n"):
            if ln.startswith(("ATOM  ", "HETATM")) and len(ln) >= 54:
                ln = ln[:30] + "".join(f"{float(ln[30 + 8 * i:38 + 8 * i]) + t[i]:8.3f}" for i in range(3)) + ln[54:]
            out_.append(ln)
        return "\n".join(out_)
    base = [(f"env-{nm}", gen.pdb_text(ch)) for nm, ch in environments(trng) if nm in ("polar-peptide-waters", "named-acids-waters")]
    base.append(("1AJJ", open(os.path.join(data, "1AJJ.pdb")).read()))
    for nm, text in base:
        for k in range((4 if nm == "1AJJ" else 10) if ctx.quick else (20 if nm == "1AJJ" else 60)):
            pth = os.path.join(ctx.work, f"shift-{nm}-{k}.pdb")
            open(pth, "w").write(shifted(text, [trng.uniform(-7, 7) for _ in range(3)]))
            runs.append((pth, ["--ff=AMBER"]))
    res = core.pmap(_work_run, runs, chunksize=1)
    by_size = {}
    for (path, opts), (segs, exc, unobs) in zip(runs, res):
        if exc:
            ctx.drift.append({"run": path, "exception": exc})
        if unobs:
            ctx.extra.setdefault("unobservable", []).extend(unobs)
        for s in segs:
            tid += 1
            s["id"] = tid
            by_size.setdefault(s["size"], []).append(s)
            nq = sum(1 for e in s["ev"] if e["e"] == "query")
            ctx.evaluations += nq
            if nq:
                ctx.nontrivial.add((s["origin"], s["id"]))
    for size, traces in sorted(by_size.items()):
        v = validate(ctx, traces, size, f"runs{size}")
        judge(ctx, traces, v, "pipeline run")
        ctx.sample({"run": traces[0]["origin"], "cells_size": size, "events": len(traces[0]["ev"]),
                    "first_query": next((e for e in traces[0]["ev"] if e["e"] == "query"), None)})
