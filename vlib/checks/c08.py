"""C08 - the PQR file is a faithful, re-readable serialisation of the model.

(M) TLC explores PqrFormat.tla over the product of field shapes x {--whitespace} x {--keep-chain} (emission with the
    model's verdict per shape).
(R) one real Atom per shape goes through the real get_pqr_string / main.print_pqr / io.read_pqr;
(T) TLC (PqrFormatTrace) replays the spec's actions per atom, compares produced text and reader result with the
    observed ones and evaluates the C08 clauses on the observed text; the atom lines of real pipeline runs are
    validated the same way against the atoms of the returned biomolecule.
"""
import argparse
import json
import os
import random

from .. import core, gen

LEVEL = "model_checking"

FIELDS = {
    "quick": dict(
        Types=["ATOM", "HETATM"], Serials=["1", "9999", "10000", "99999", "100000"], Names=["N", "CA", "HB2", "O1AL", "PH1A", "CL", "HD11"],
        ResNames=["A", "DA", "ALA", "NALA"], Chains=["", "A"], ResSeqs=["-5", "1", "999", "1000", "-100", "10000"],
        ICodes=["", "A"], Xs=["0.000", "-0.001", "999.999", "-99.999", "-100.000", "-999.999", "-1000.000", "9999.999",
                             "-1234.568", "10000.000"],
        Ys=["1.500", "-150.250"], Zs=["-12.345", "1100.000"], Charges=["-0.8340", "0.0000", "1.0000"],
        Radii=["1.8240", "0.0000"]),
    "thorough": dict(
        Types=["ATOM", "HETATM"], Serials=["1", "42", "9999", "10000", "99999", "100000", "1234567"],
        Names=["N", "CA", "HB2", "HD11", "O1AL", "PH1A", "LIPF", "FE", "CL", "IP", "HD1F", "1HB"], ResNames=["A", "DA", "ALA", "NALA", "HOH"], Chains=["", "A", "z"],
        ResSeqs=["-999", "-100", "-5", "0", "1", "999", "1000", "9999", "10000", "99999"], ICodes=["", "A"],
        Xs=["0.000", "-0.001", "999.999", "-99.999", "-100.000", "-999.999", "-1000.000", "1000.000", "9999.999",
            "10000.000", "-1234.568", "12345.678", "-9999.999", "-99999.999", "99999.999"],
        Ys=["1.500", "-150.250", "-1000.000"], Zs=["-12.345", "1100.000", "10000.000"],
        Charges=["-0.8340", "0.0000", "1.0000", "-9.5000"], Radii=["1.8240", "0.0000", "9.9000"]),
}
WIDTH = {"serial": 5, "resseq": 4, "x": 8, "y": 8, "z": 8, "q": 8, "r": 7, "name": 4, "resname": 4, "chain": 1, "type": 6}


def tla_set(vals):
    return "{" + ", ".join(json.dumps(v) for v in vals) + "}"


def cfg_text(fields, emit, inv, spec="Spec", quickgrid=False):
    s = f"SPECIFICATION {spec}\nCONSTANTS\n"
    for k, v in fields.items():
        s += f"  {k} = {tla_set(v)}\n"
    s += f"  KeepChain = {{TRUE, FALSE}}\n  Whitespace = {{TRUE, FALSE}}\n  Emit = {emit}\nINVARIANT {inv}\n"
    return s


def covering(fields, rng, per_pair=1):
    """star + random covering subset of the product: every value of every field in every (ws, keepchain) context,
    with the other fields at each of a few base points, plus random points."""
    keys = list(fields)
    low = {"type": "Types", "serial": "Serials", "name": "Names", "resname": "ResNames", "chain": "Chains",
           "resseq": "ResSeqs", "icode": "ICodes", "x": "Xs", "y": "Ys", "z": "Zs", "q": "Charges", "r": "Radii"}
    names = list(low)
    bases = [{n: fields[low[n]][0] for n in names}, {n: fields[low[n]][-1] for n in names}]
    for _ in range(3):
        bases.append({n: rng.choice(fields[low[n]]) for n in names})
    shapes = []
    for b in bases:
        for n in names:
            for v in fields[low[n]]:
                s = dict(b)
                s[n] = v
                shapes.append(s)
        # all pairs of the width-relevant fields
        for n1 in ("serial", "resseq", "x", "name", "resname", "chain", "icode", "type"):
            for n2 in ("serial", "resseq", "x", "name", "resname", "chain", "icode", "type"):
                if n1 < n2:
                    for v1 in fields[low[n1]]:
                        for v2 in fields[low[n2]]:
                            s = dict(b)
                            s[n1], s[n2] = v1, v2
                            shapes.append(s)
    for _ in range(2000):
        shapes.append({n: rng.choice(fields[low[n]]) for n in names})
    out, seen = [], set()
    for s in shapes:
        for ws in (True, False):
            for kc in (True, False):
                t = dict(s, ws=ws, keepchain=kc)
                k = json.dumps(t, sort_keys=True)
                if k not in seen:
                    seen.add(k)
                    out.append(t)
    return out


def observe(f, path):
    """one real Atom through get_pqr_string, print_pqr, read_pqr"""
    core.use_repo()
    from pdb2pqr import structures, io as pio, main as pmain

    a = structures.Atom()
    a.type, a.serial, a.name, a.res_name = f["type"], int(f["serial"]), f["name"], f["resname"]
    a.chain_id, a.res_seq, a.ins_code = f["chain"], int(f["resseq"]), f["icode"]
    a.x, a.y, a.z, a.ffcharge, a.radius = float(f["x"]), float(f["y"]), float(f["z"]), float(f["q"]), float(f["r"])
    line = a.get_pqr_string(chainflag=f["keepchain"])
    args = argparse.Namespace(output_pqr=path, whitespace=f["ws"])
    pmain.print_pqr(args=args, pqr_lines=[line + "\n"], header_lines="", missing_lines=None, is_cif=False)
    out = open(path).read()
    return line, out.rstrip("\n"), read_back(out)


def read_back(text):
    from pdb2pqr import io as pio
    import io

    try:
        atoms = pio.read_pqr(io.StringIO(text))
    except Exception as e:
        return {"err": type(e).__name__}
    if len(atoms) != 1:
        return {"err": f"{len(atoms)} atoms"}
    b = atoms[0]
    try:
        return {"err": "", "type": b.type, "serial": str(b.serial), "name": b.name, "resname": b.res_name,
                "chain": b.chain_id or "", "resseq": str(b.res_seq), "icode": b.ins_code or "",
                "x": f"{b.x:.3f}", "y": f"{b.y:.3f}", "z": f"{b.z:.3f}", "q": f"{b.charge:.4f}", "r": f"{b.radius:.4f}"}
    except Exception as e:
        return {"err": "fields:" + type(e).__name__}


def _work(args):
    shapes, wdir = args
    path = os.path.join(wdir, f"c08-{os.getpid()}.pqr")
    out = []
    for f in shapes:
        try:
            out.append(observe(f, path))
        except Exception as e:
            out.append(("!", "!", {"err": "raise:" + type(e).__name__}))
    try:
        os.unlink(path)
    except OSError:
        pass
    return out


def _work_run(args):
    name, opts = args
    from .. import runner
    import shutil

    wd = os.path.join(core.VERIF, ".work", f"c08r-{os.getpid()}")
    os.makedirs(wd, exist_ok=True)
    pqr = os.path.join(wd, "o.pqr")
    src = os.path.join(core.REPO, "tests", "data", name)
    if name == "GEN:ligand-complex":
        # a generated complex (peptide + the MOL2 ligand as a hetero group, no water): ligand atoms are appended to the written
        # list after the force-field atoms
        mol2 = next(o.split("=", 1)[1] for o in opts if o.startswith("--ligand="))
        src = os.path.join(wd, "complex.pdb")
        open(src, "w").write(gen.pdb_text([gen.peptide(["ALA", "SER", "LYS"]), gen.ligand_hetatm(mol2, move_to=(-14, -12, 6))]))
    r = runner.run(opts + [src, pqr])
    traces = []
    info = {"exc": r["exc_type"], "natoms": 0, "nlines": 0, "other": []}
    if r["ok"]:
        missed = set(id(a) for a in (r["missed"] or []))
        atoms = [a for a in r["bio"].atoms if id(a) not in missed]
        lines = open(pqr).read().split("\n")
        alines = [ln for ln in lines if ln.startswith(("ATOM", "HETATM"))]
        if name.startswith("GEN:"):
            # lines are paired with the model's atoms by (atom name, residue name, residue number): the returned "unassigned"
            # list of a --ligand run also holds matched ligand atoms (known finding of C03)
            bykey = {(a.name, a.res_name, str(a.res_seq)): a for a in r["bio"].atoms}
            atoms = [bykey.get((ln[12:16].strip(), ln[17:20].strip(), ln[22:26].strip())) for ln in alines]
            alines = [ln for ln, a in zip(alines, atoms) if a is not None]
            atoms = [a for a in atoms if a is not None]
        info["natoms"], info["nlines"] = len(atoms), len(alines)
        info["other"] = sorted(set(ln[:6].strip() for ln in lines if ln and not ln.startswith(("ATOM", "HETATM"))))
        ws = "--whitespace" in opts
        kc = "--keep-chain" in opts
        for a, ln in zip(atoms, alines):
            f = {"type": a.type, "serial": str(a.serial), "name": a.name, "resname": a.res_name, "chain": a.chain_id,
                 "resseq": str(a.res_seq), "icode": a.ins_code, "x": f"{a.x:.3f}", "y": f"{a.y:.3f}", "z": f"{a.z:.3f}",
                 "q": f"{a.ffcharge:.4f}" if a.ffcharge is not None else "0.0000",
                 "r": f"{a.radius:.4f}" if a.radius is not None else "0.0000", "keepchain": kc, "ws": ws}
            traces.append({"f": f, "line": "-", "out": ln, "rd": read_back(ln + "\n")})
    shutil.rmtree(wd, ignore_errors=True)
    return traces, info


def wide(f, fld):
    return fld in WIDTH and fld in f and len(f[fld]) > WIDTH[fld]


def cause(f, clause):
    """structural cause of a violated clause on shape f: which formatter limit of the *same* field is exceeded"""
    fld = clause.split(":")[1]
    ic = bool(f["ws"] and f["icode"])
    glue = bool(f["ws"] and f["keepchain"] and f["chain"] and len(f["resseq"]) >= 4)
    if fld in WIDTH:
        return {"clause": clause, "own_field_too_wide": wide(f, fld),
                "icode_in_ws": ic and fld in ("resseq", "chain"), "chain_glued_ws": glue and fld in ("resseq", "chain")}
    return {"clause": clause, "own_field_too_wide": any(wide(f, x) for x in ("serial", "resseq", "x", "y", "z")),
            "icode_in_ws": ic, "chain_glued_ws": glue}


def run(ctx):
    rng = random.Random(ctx.seed)
    fields = FIELDS["quick" if ctx.quick else "thorough"]
    ctx.rule = ("field shapes: product of the value sets in evidence.field_sets x --whitespace x --keep-chain; thorough "
                "explores the whole product in TLC and replays a covering subset (every value, every pair of "
                "width-relevant fields at five base points, random points); non-trivial = at least one field at a "
                "non-default width; distinct = distinct shape")
    ctx.extra["field_sets"] = fields
    ctx.assumptions += ["|charge| < 10 e and radius < 10 A (wider values fill their field and are glued to the neighbour "
                        "in the whitespace layout)", "numbers are exactly the decimals printed (3 for coordinates, 4 for charge/radius); the float->text "
                        "step itself is not modelled", "documented PDB-style columns for the default layout"]
    ctx.trusted += ["vlib/checks/c08.py observe/read_back/cause", "TLC 1.8"]
    cfg = os.path.join(ctx.work, "mc.cfg")
    # (M) the model of the formatter: Confined holds (a wide field never corrupts a neighbour); Faithful does not
    # (fields are cut): those violations are reported through the replayed cases, where the real code is shown to
    # behave like the model, and matched against known_findings.json
    pick = {"quick": dict(Serials=3, Names=2, ResNames=2, ResSeqs=4, Xs=5, Ys=1, Zs=1, Charges=1, Radii=1),
            "thorough": dict(Serials=5, Names=3, ResNames=3, ResSeqs=6, Xs=8, Ys=2, Zs=1, Charges=2, Radii=2)}[ctx.tier]
    mcf = {k: (v if k not in pick else [v[0]] + rng.sample(v[1:-1], max(0, pick[k] - 2)) + [v[-1]] if pick[k] > 1 else [v[0]])
           for k, v in fields.items()}
    open(cfg, "w").write(cfg_text(mcf, "FALSE", "Confined"))
    r = core.run_tlc("PqrFormat", cfg, ctx.work, timeout=3000, heap="8g")
    core.need_ok(r, "PqrFormat")
    ctx.add_tlc(r, "formatter model over a product of shapes: Confined")
    if r.invariant:
        ctx.violation({"clause": "model:" + r.invariant, "own_field_too_wide": False, "icode_in_ws": False,
                       "chain_glued_ws": False}, "the formatter model violates Confined", {"tlc": r.out[-3000:]})
    open(cfg, "w").write(cfg_text({k: v[:2] if k not in ("Xs", "Serials") else v for k, v in mcf.items()}, "FALSE", "Faithful"))
    r2 = core.run_tlc("PqrFormat", cfg, ctx.work, timeout=600)
    if r2.invariant != "Faithful":
        raise core.MachineryError("self-test failed: the formatter model satisfies Faithful although fields are cut")
    ctx.add_tlc(r2, "Faithful is violated by the model (fields are cut): found as required")
    # (R) replay
    shapes = covering(fields, rng)
    chunks = [shapes[i:i + 300] for i in range(0, len(shapes), 300)]
    res = core.pmap(_work, [(ch, ctx.work) for ch in chunks], chunksize=1)
    traces = []
    for ch, obs in zip(chunks, res):
        for f, (line, out, rd) in zip(ch, obs):
            traces.append({"id": len(traces) + 1, "f": f, "line": line, "out": out, "rd": rd, "origin": "shape"})
            ctx.evaluations += 1
            if any(len(f[k]) >= WIDTH[k] for k in ("serial", "resseq", "x", "name", "resname")) or f["icode"]:
                ctx.nontrivial.add(json.dumps(f, sort_keys=True))
    # (T) atom lines of real runs
    runs = [("cterm_hid.pdb", ["--ff=AMBER"]), ("cterm_hid.pdb", ["--ff=PARSE", "--whitespace", "--keep-chain"]),
            ("1AJJ.pdb", ["--ff=CHARMM", "--keep-chain", "--ffout=AMBER"]), ("1AJJ.pdb", ["--ff=AMBER", "--whitespace"]),
            ("cterm_hid.pdb", ["--clean", "--keep-chain"]), ("1AJJ.pdb", ["--clean", "--keep-chain", "--whitespace"]), ("1AJJ.pdb", ["--clean"]),
            ("1A1P.pdb", ["--ff=AMBER", "--assign-only", "--keep-chain"]),
            ("GEN:ligand-complex", ["--ff=AMBER", "--ligand=" + os.path.join(core.REPO, "tests", "data", "ethanol.mol2")]),
            ("GEN:ligand-complex", ["--ff=PARSE", "--keep-chain", "--ligand=" + os.path.join(core.REPO, "tests", "data", "acetate.mol2")])]
    if not ctx.quick:
        runs += [("1K1I.pdb", ["--ff=AMBER", "--whitespace", "--keep-chain"]), ("1K1I.pdb", ["--ff=PARSE", "--keep-chain"]),
                 ("1BX8.pdb", ["--ff=SWANSON", "--whitespace", "--ffout=CHARMM"])]
    for (name, opts), (trs, info) in zip(runs, core.pmap(_work_run, runs, chunksize=1)):
        if info["exc"]:
            raise core.MachineryError(f"pipeline run {name} {opts} failed: {info['exc']}")
        origin = f"{name} {' '.join(opts)}"
        if info["natoms"] != info["nlines"]:
            ctx.violation({"clause": "File:atom-count", "own_field_too_wide": False, "icode_in_ws": False,
                           "chain_glued_ws": False},
                          f"{origin}: {info['natoms']} matched atoms but {info['nlines']} atom lines in the file", info)
        for t in trs:
            t["id"] = len(traces) + 1
            t["origin"] = origin
            traces.append(t)
        ctx.evaluations += len(trs)
        ctx.nontrivial.add(origin)
    tf = core.write_json(os.path.join(ctx.work, "tr.json"), [{k: t[k] for k in ("id", "f", "line", "out", "rd")} for t in traces])
    open(cfg, "w").write(cfg_text(fields, "FALSE", "Report", spec="TSpec"))
    r = core.run_tlc("PqrFormatTrace", cfg, ctx.work, workers=8, env={"TRACE_FILE": tf}, timeout=3000, heap="8g")
    core.need_ok(r, "PqrFormatTrace")
    ctx.add_tlc(r, "trace validation")
    got = {v[1]: v for v in r.printed if isinstance(v, list) and v and v[0] == "T"}
    if len(got) != len(traces):
        raise core.MachineryError(f"{len(got)} verdicts for {len(traces)} traces; {r.unparsed[:2]} {r.out[-800:]}")
    ctx.traces += len(traces)
    ndrift = 0
    for t in traces:
        _, _, a1, a2, a3, bad = got[t["id"]]
        for cl in bad:
            ctx.violation(cause(t["f"], cl),
                          f"{t['origin']}: fields {json.dumps(t['f'])} written as {t['out']!r}, read back {json.dumps(t['rd'])}",
                          {"fields": t["f"], "line": t["line"], "written": t["out"], "read": t["rd"]})
        if not (a1 and a2 and a3):
            ndrift += 1
            if len(ctx.drift) < 20:
                ctx.drift.append({"fields": t["f"], "line_ok": a1, "out_ok": a2, "reader_ok": a3, "written": t["out"],
                                  "read": t["rd"]})
    ctx.extra["traces_not_matching_algorithm_model"] = ndrift
    ctx.sample({"fields": traces[7]["f"], "written": traces[7]["out"], "read_back": traces[7]["rd"]})
    ctx.sample({"origin": traces[-1]["origin"], "fields": traces[-1]["f"], "written": traces[-1]["out"]})
