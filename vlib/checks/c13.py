"""C13 - disulfide bridges are detected symmetrically and exclusively.

(M) TLC: SSBridge.tla over every within-limit graph on N <= 5 cysteines in scan order (Symmetric).
(R) every graph TLC emits is realised with real coordinates (short ALA-CYS-ALA chains moved rigidly so that their SG
    atoms sit at solved positions), in several file orders / chain-id assignments and option sets (--nodebump, --noopt), plus axis-parallel pairs at distances
    around the limit placed across the 2 A and 5 A grid lines; each runs through the whole pipeline.
(T) TLC (SSBridgeTrace) replays the scan on the relation recomputed from the written coordinates and judges the
    observed partner / CYX / HG state of every cysteine.
"""
import itertools
import json
import math
import os
import random
import shutil

import numpy as np

from .. import core, gen

LEVEL = "model_checking"
LIMIT = 2.5


def solve_points(n, edges, rng, tries=60):
    """points in 3-D with |pi-pj| <= 2.25 for edges and >= 2.9 for non-edges (margin around the 2.5 A limit)"""
    es = set(tuple(sorted(e)) for e in edges)
    for _ in range(tries):
        p = np.array([[rng.uniform(-3, 3) for _ in range(3)] for _ in range(n)])
        for it in range(600):
            g = np.zeros_like(p)
            bad = 0
            for a in range(n):
                for b in range(a + 1, n):
                    d = p[a] - p[b]
                    r = np.linalg.norm(d) + 1e-9
                    if (a + 1, b + 1) in es:
                        if r > 2.2 or r < 1.9:
                            bad += 1
                            tgt = 2.05
                            g[a] += (r - tgt) * d / r
                            g[b] -= (r - tgt) * d / r
                    elif r < 3.0:
                        bad += 1
                        g[a] += (r - 3.3) * d / r
                        g[b] -= (r - 3.3) * d / r
            if bad == 0:
                return p
            p -= 0.2 * g
    return None


WITH_H = [False]


CYS_POS = [1]      # index of the cysteine in its tripeptide (0 / 2: the bridged residue is a chain terminus)


def chain_at(sg_target, away_from, chain, start, rng, icode=""):
    """ALA-CYS-ALA (or CYS-ALA-ALA / ALA-ALA-CYS) moved rigidly: SG at sg_target, the body of the chain pointing away from `away_from`"""
    # (with insertion codes the pieces carry no OXT, so that pdb2pqr keeps them in one chain under one identifier)
    seq3 = ["ALA", "ALA", "ALA"]
    seq3[CYS_POS[0]] = "CYS"
    at = gen.peptide(seq3, chain=chain, start=start, icodes={0: icode, 1: icode, 2: icode} if icode else None,
                     oxt=not icode, hydrogens=WITH_H[0])
    sg = next(a["xyz"] for a in at if a["name"] == "SG" and a["res_index"] == CYS_POS[0])
    cen = sum(a["xyz"] for a in at) / len(at)
    v_from = cen - sg
    v_to = np.array(sg_target) - np.array(away_from)
    if np.linalg.norm(v_to) < 1e-6:
        v_to = np.array([1.0, 0.3, 0.2])
    R = gen._align(v_from, v_to)
    spin = gen._rot_axis(v_to, rng.uniform(0, 2 * math.pi))
    R = spin @ R
    t = np.array(sg_target) - R @ sg
    return gen.transform(at, R, t)


def build(points, order, same_chain, rng, icodes=False):
    """PDB text with one chain per cysteine, chains written in `order`; returns text.  icodes: one chain id and one set of
    residue numbers for all, told apart by insertion codes only"""
    cen = points.mean(axis=0) if len(points) > 1 else points[0] + np.array([1.0, 0, 0])
    chains = []
    for pos, k in enumerate(order):
        cid = "A" if (same_chain or icodes) else "ABCDEFGH"[pos]
        start = 1 if icodes else (10 * pos + 1 if same_chain else 1)
        chains.append(chain_at(points[k], cen, cid, start, rng, icode="ABCDEFGH"[pos] if icodes else ""))
    return gen.pdb_text(chains)


def cys_records(text):
    """(chain, resseq, icode) of the cysteines in file order"""
    out = []
    for ln in text.split("\n"):
        if ln.startswith("ATOM") and ln[12:16].strip() == "SG":
            out.append((ln[21], int(ln[22:26]), ln[26]))
    return out


def ssbond_lines(text, pairs):
    cys = cys_records(text)
    out = []
    for n, (a, b) in enumerate(pairs, start=1):
        (c1, s1, i1), (c2, s2, i2) = cys[a - 1], cys[b - 1]
        out.append(f"SSBOND{n:4d} CYS {c1}{s1:5d}{i1}   CYS {c2}{s2:5d}{i2}                         1555   1555  2.03")
    return "\n".join(out) + ("\n" if out else "")


def decorate(text, kind, rng):
    """header records and residue names that must not change which cysteines are bridged (detection follows coordinates)"""
    sg, close, _d = relation_from_text(text)
    n = len(sg)
    allpairs = [[a, b] for a in range(1, n + 1) for b in range(a + 1, n + 1)]
    far = [p_ for p_ in allpairs if p_ not in close]
    if kind in ("ssbond-subset", "ssbond-subset+cym"):
        text = ssbond_lines(text, close[:max(0, len(close) - 1)] + far[:1]) + text      # one bridge not listed, a wrong one listed
    elif kind == "ssbond-all":
        text = ssbond_lines(text, close) + text
    elif kind == "ssbond-relabelled":
        text = ssbond_lines(text, close).replace(" A ", " Z ").replace(" B ", " Y ") + text   # header names other chains
    if kind == "occ0":
        # occupancy says nothing about where an atom is: a sulfur flagged 0.00 (and every other record 0.50) bonds like any other
        text = "\n".join((ln[:54] + ("  0.00" if ln[12:16].strip() == "SG" else "  0.50") + ln[60:]) if ln.startswith("ATOM") and len(ln) >= 60 else ln
                         for ln in text.split("\n"))
    elif kind == "cut54":
        # records that end after the coordinates (no occupancy / temperature factor / element)
        text = "\n".join(ln[:54] if ln.startswith("ATOM") else ln for ln in text.split("\n"))
    if kind in ("cym", "ssbond-subset+cym"):
        cys = cys_records(text)
        pick = set(rng.sample(range(len(cys)), max(1, len(cys) // 2)))
        lines = []
        for ln in text.split("\n"):
            if ln.startswith("ATOM") and ln[17:20] == "CYS" and (ln[21], int(ln[22:26]), ln[26]) in [cys[i] for i in pick]:
                ln = ln[:17] + "CYM" + ln[20:]
            lines.append(ln)
        text = "\n".join(lines)
    return text


def relation_from_text(text):
    """SG positions in file order and the within-limit relation, read back from the written PDB text"""
    sg = []
    for ln in text.split("\n"):
        if ln.startswith("ATOM") and ln[12:16].strip() == "SG":
            sg.append(np.array([float(ln[30:38]), float(ln[38:46]), float(ln[46:54])]))
    close, dists = [], []
    for a in range(len(sg)):
        for b in range(a + 1, len(sg)):
            d = float(np.linalg.norm(sg[a] - sg[b]))
            dists.append(round(d, 4))
            if d < LIMIT:
                close.append([a + 1, b + 1])
    return sg, close, dists


def _work(job):
    from .. import runner

    wd = os.path.join(core.VERIF, ".work", f"c13-{os.getpid()}")
    os.makedirs(wd, exist_ok=True)
    inp, out = os.path.join(wd, "in.pdb"), os.path.join(wd, "o.pqr")
    open(inp, "w").write(job["text"])
    r = runner.run(job["args"] + [inp, out])
    obs = []
    if r["ok"]:
        core.use_repo()
        from pdb2pqr import aa
        cys = [res for res in r["bio"].residues if isinstance(res, aa.CYS)]
        idx = {id(res): n + 1 for n, res in enumerate(cys)}
        for res in cys:
            p = res.ss_bonded_partner
            obs.append({"partner": idx.get(id(p.residue), -1) if (res.ss_bonded and p is not None) else 0,
                        "cyx": res.ffname.endswith("CYX"), "hg": res.has_atom("HG"), "cym": res.name == "CYM" or res.ffname.endswith("CYM")})
    shutil.rmtree(wd, ignore_errors=True)
    return {"ok": r["ok"], "exc": r["exc_type"], "msg": str(r["exc"])[:120] if r["exc"] else "", "obs": obs}


def run(ctx):
    rng = random.Random(ctx.seed)
    nmax = 4 if ctx.quick else 5
    ctx.rule = ("every within-limit graph on <= N cysteines emitted by TLC, realised geometrically and written in "
                "identity/reversed/random file order with distinct or shared chain ids; plus axis-parallel pairs at "
                "2.0..2.6 A placed across grid lines.  Distinct = distinct (graph, order, chain mode) or (distance, axis, "
                "offset); non-trivial = at least one pair within the limit")
    ctx.assumptions += ["within-limit relation recomputed from the coordinates as written (3 decimals)",
                        "graphs that could not be realised with a 0.25 A margin are counted in evidence.unrealised"]
    ctx.trusted += ["vlib/checks/c13.py solve_points/chain_at/relation_from_text", "TLC 1.8"]
    cfg = os.path.join(ctx.work, "ss.cfg")
    graphs = []
    for n in range(2, nmax + 1):
        open(cfg, "w").write(f"SPECIFICATION Spec\nCONSTANTS\n  N = {n}\n  Emit = FALSE\nINVARIANT Symmetric\n")
        r = core.run_tlc("SSBridge", cfg, ctx.work, coverage=True, timeout=600)
        core.need_ok(r, f"SSBridge N={n}")
        ctx.add_tlc(r, f"all graphs on {n} cysteines")
        if r.invariant:
            ctx.violation({"clause": "model:Symmetric"}, f"SSBridge model violates Symmetric for N={n}", {"tlc": r.out[-1500:]})
        open(cfg, "w").write(f"SPECIFICATION Spec\nCONSTANTS\n  N = {n}\n  Emit = TRUE\nINVARIANT EmitInv\n")
        r = core.run_tlc("SSBridge", cfg, ctx.work, workers=2, timeout=600)
        core.need_ok(r, "SSBridge emit")
        got = [json.loads(v[1:]) for v in r.printed if isinstance(v, str) and v.startswith("@")]
        if len(got) != 2 ** (n * (n - 1) // 2):
            raise core.MachineryError(f"emitted {len(got)} graphs for N={n}")
        graphs += [(n, g) for g in got]
    ctx.exhaustive = True
    jobs, unreal = [], 0
    ffs = gen.FORCE_FIELDS
    for gi, (n, g) in enumerate(graphs):
        if ctx.quick and n == 4 and gi % 2 == (ctx.seed % 2):
            continue
        pts = solve_points(n, g["close"], rng)
        if pts is None:
            unreal += 1
            continue
        orders = [list(range(n)), list(range(n))[::-1]]
        if not ctx.quick:
            o = list(range(n))
            rng.shuffle(o)
            orders.append(o)
        for oi, order in enumerate(orders):
            same = (gi + oi) % 3 == 0
            WITH_H[0] = (gi + oi) % 4 == 2          # a quarter of the inputs carry their hydrogens (HG on every cysteine)
            # a third of the structures have the cysteines at the N- or C-terminal end of their chains (not with insertion codes,
            # where the pieces form one chain)
            CYS_POS[0] = 1 if (gi + oi) % 5 == 1 else [1, 0, 2, 1, 1, 1][(gi + 2 * oi) % 6]
            text = build(pts, order, same, rng, icodes=(gi + oi) % 5 == 1)
            cpos = CYS_POS[0]
            WITH_H[0] = False
            CYS_POS[0] = 1
            extra = [[], ["--nodebump"], ["--noopt"], ["--nodebump", "--noopt"], ["--drop-water"]][(gi + 2 * oi) % 5]
            deco = ["plain", "ssbond-subset", "cym", "ssbond-all", "ssbond-subset+cym", "ssbond-relabelled", "occ0", "cut54"][(gi + 3 * oi + ctx.seed) % 8]
            ff = ffs[(gi + oi) % 6]
            if "cym" in deco and ff in ("PEOEPB", "CHARMM"):
                ff = "AMBER"
            if ff == "PARSE":
                # the termini may be neutral: the state name of a terminal bridged cysteine still has to be the bridged one
                extra = extra + [[], ["--neutraln"], ["--neutralc"], ["--neutraln", "--neutralc"]][(gi + oi) % 4]
            jobs.append({"text": decorate(text, deco, rng), "args": [f"--ff={ff}"] + extra, "plain_names": "cym" not in deco,
                         "what": f"graph n={n} {g['close']} order={order} same_chain={same} icodes={(gi + oi) % 5 == 1} cys_at={cpos} opts={extra} input={deco}"})
    # a bridged pair whose cysteines end their chains, under PARSE with charged and with neutral termini
    for n_, g_ in [(n, g) for n, g in graphs if n == 2 and g["close"]][:1]:
        pts = solve_points(n_, g_["close"], rng)
        if pts is not None:
            for cpos, optsets in ((0, ([], ["--neutraln"], ["--neutraln", "--neutralc"])), (2, ([], ["--neutralc"], ["--neutraln", "--neutralc"]))):
                for extra in optsets:
                    CYS_POS[0] = cpos
                    text = build(pts, [0, 1], False, rng)
                    CYS_POS[0] = 1
                    jobs.append({"text": text, "args": ["--ff=PARSE"] + extra, "plain_names": True,
                                 "what": f"graph n=2 {g_['close']} cysteines at chain end {cpos} opts={extra} input=plain"})
    # axis-parallel pairs around the limit, across grid lines
    dists = [2.0, 2.04, 2.3, 2.45, 2.499, 2.5, 2.501, 2.6]
    starts = [-0.01, 0.0, 0.55, 1.5, 1.98, 1.99, 4.97, -2.01]
    for d in dists:
        for ax in range(3):
            for s in (starts if not ctx.quick else starts[::2] + [1.98]):
                p0 = np.zeros(3)
                p0[ax] = s
                p0[(ax + 1) % 3] = 0.37
                p1 = p0.copy()
                p1[ax] = s + d
                pts = np.array([p0, p1])
                text = build(pts, [0, 1], False, rng)
                extra = [[], ["--nodebump"], ["--noopt"]][len(jobs) % 3]
                jobs.append({"text": text, "args": ["--ff=AMBER"] + extra, "what": f"pair d={d} axis={ax} start={s} opts={extra}"})
    ctx.extra["unrealised"] = unreal
    res = core.pmap(_work, jobs, chunksize=4)
    byn = {}
    failed = 0
    for j, o in zip(jobs, res):
        ctx.evaluations += 1
        sg, close, dd = relation_from_text(j["text"])
        if any(abs(x - LIMIT) < 5e-4 and x != LIMIT for x in dd):
            continue     # too close to the limit to classify after rounding
        if not o["ok"] and j.get("plain_names"):
            # complete peptides with cysteines under their plain name: without a result neither partner has bridged-cysteine
            # parameters (inputs naming thiolates CYM may be refused by a force field that lacks the state: drift)
            ctx.violation({"clause": "BridgedPairParameterised", "exc": o["exc"], "nclose": len(close)},
                          f"{j['what']}: run failed with {o['exc']} {o['msg']}", {"what": j["what"], "text": j["text"]})
            continue
        if not o["ok"]:
            failed += 1
            if len(ctx.drift) < 10:
                ctx.drift.append({"what": j["what"], "failed": o["exc"], "msg": o["msg"]})
            continue
        if len(o["obs"]) != len(sg):
            raise core.MachineryError(f"{j['what']}: {len(o['obs'])} CYS observed for {len(sg)} SG written")
        t = {"n": len(sg), "close": close, "obs": o["obs"], "what": j["what"], "dists": dd, "text": j["text"]}
        byn.setdefault(len(sg), []).append(t)
        if close:
            ctx.nontrivial.add(j["what"])
    ctx.extra["runs_failed"] = failed
    if failed > len(jobs) // 5:
        raise core.MachineryError(f"{failed} of {len(jobs)} generated structures failed to run")
    tid = 0
    for n, traces in sorted(byn.items()):
        for t in traces:
            tid += 1
            t["id"] = tid
        tf = core.write_json(os.path.join(ctx.work, f"tr{n}.json"), [{k: t[k] for k in ("id", "n", "close", "obs")} for t in traces])
        open(cfg, "w").write(f"SPECIFICATION TSpec\nCONSTANTS\n  N = {n}\nINVARIANT Report\n")
        r = core.run_tlc("SSBridgeTrace", cfg, ctx.work, workers=4, env={"TRACE_FILE": tf}, timeout=1200)
        core.need_ok(r, "SSBridgeTrace")
        ctx.add_tlc(r, f"trace validation n={n}")
        got = {v[1]: v for v in r.printed if isinstance(v, list) and v and v[0] == "T"}
        if len(got) != len(traces):
            raise core.MachineryError(f"{len(got)} verdicts for {len(traces)} traces; {r.unparsed[:2]} {r.out[-500:]}")
        ctx.traces += len(traces)
        for t in traces:
            _, _, acc, bad, incons = got[t["id"]]
            for b in bad:
                ctx.violation({"clause": b[0], "n": t["n"], "nclose": len(t["close"])},
                              f"{t['what']}: close={t['close']} dists={t['dists']} observed={t['obs']} ({b})",
                              {"what": t["what"], "close": t["close"], "dists": t["dists"], "observed": t["obs"], "pdb": t["text"]})
            excl = set()
            for c in incons:
                deg = sum(1 for e in t["close"] if c in e)
                if deg <= 1:
                    ctx.violation({"clause": "StateConsistent", "n": t["n"], "deg": deg},
                                  f"{t['what']}: cysteine {c} partner/CYX/HG disagree: {t['obs'][c-1]}",
                                  {"what": t["what"], "close": t["close"], "observed": t["obs"], "pdb": t["text"]})
            if not acc and not bad:
                ctx.drift.append({"what": t["what"], "close": t["close"], "observed": t["obs"]})
    some = next(iter(byn.values()))[0]
    ctx.sample({"what": some["what"], "close": some["close"], "sg_distances": some["dists"], "observed": some["obs"]})
