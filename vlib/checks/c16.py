"""C16 - ligand charges conserve formal charge and stay on the ligand.

(M) TLC: Peoe.tla over every bond graph on 3 atoms x formal-charge shares x antisymmetric transfers (ComponentSumInvariant);
    with SkipUnbonded TLC must find the violation.
(T) real Mol2Molecule.assign_parameters on the stored molecules and generated variants (renamed, permuted, with an
    unbonded counter-ion), charges recorded after every PEOE cycle by a local trace function; TLC (PeoeTrace) checks the
    per-component sums at every cycle and at the end, the radii against the RADII tables, and the metamorphic pairs.
(R) generated protein-ligand complexes (peptide + ligand + water + another hetero group, with and without atom-name
    collisions, one or two ligand copies) run end to end; TLC judges LigandAtomOnce / OnlyLigandGetsLigandParams.
"""
import glob
import io
import json
import os
import random
import shutil
import sys

import numpy as np

from .. import core, gen

LEVEL = "model_checking"
DATA = os.path.join(core.REPO, "tests", "data")


# ------------------------------------------------------------------ MOL2 text manipulation (independent of pdb2pqr)
def parse_mol2(text):
    sec, atoms, bonds, head = None, [], [], []
    for ln in text.split("\n"):
        if ln.startswith("@<TRIPOS>"):
            sec = ln.strip()
            continue
        if sec == "@<TRIPOS>ATOM" and ln.strip():
            w = ln.split()
            atoms.append({"id": int(w[0]), "name": w[1], "xyz": [float(w[2]), float(w[3]), float(w[4])], "type": w[5],
                          "rest": w[6:]})
        elif sec == "@<TRIPOS>BOND" and ln.strip():
            w = ln.split()
            bonds.append([int(w[1]), int(w[2]), w[3]])
    return atoms, bonds


def write_mol2(atoms, bonds):
    out = ["@<TRIPOS>MOLECULE", "GEN", f"{len(atoms):5d} {len(bonds):5d}     1", "SMALL", "USER_CHARGES", "", "",
           "@<TRIPOS>ATOM"]
    for a in atoms:
        x, y, z = a["xyz"]
        out.append(f"{a['id']:7d} {a['name']:<8s} {x:10.4f} {y:10.4f} {z:10.4f} {a['type']:<8s} 1 LIG   0.000")
    out.append("@<TRIPOS>BOND")
    for k, (i, j, o) in enumerate(bonds, start=1):
        out.append(f"{k:6d} {i:5d} {j:5d} {o}")
    out.append("@<TRIPOS>SUBSTRUCTURE")
    out.append("     1 LIG     1")
    return "\n".join(out) + "\n"


SUBSTITUENTS = {
    # name: (atoms as (name stem, sybyl type), bonds among them and to the attachment point 0 as (i, j, order))
    "F": ([("F", "F")], [(0, 1, "1")]), "Cl": ([("CL", "Cl")], [(0, 1, "1")]), "Br": ([("BR", "Br")], [(0, 1, "1")]),
    "OH": ([("O", "O.3"), ("H", "H")], [(0, 1, "1"), (1, 2, "1")]),
    "NH2": ([("N", "N.3"), ("H", "H"), ("H", "H")], [(0, 1, "1"), (1, 2, "1"), (1, 3, "1")]),
    "CH3": ([("C", "C.3"), ("H", "H"), ("H", "H"), ("H", "H")], [(0, 1, "1"), (1, 2, "1"), (1, 3, "1"), (1, 4, "1")]),
    "COO-": ([("C", "C.2"), ("O", "O.co2"), ("O", "O.co2")], [(0, 1, "1"), (1, 2, "ar"), (1, 3, "ar")]),
    "NH3+": ([("N", "N.4"), ("H", "H"), ("H", "H"), ("H", "H")], [(0, 1, "1"), (1, 2, "1"), (1, 3, "1"), (1, 4, "1")]),
}


def substituted(atoms, bonds, rng, nsub=2):
    """replace hydrogens on carbon by substituents (halogen, hydroxyl, amine, methyl, carboxylate, ammonium): other molecules
    of supported atom and bond types, built from the stored ones"""
    atoms = [dict(a) for a in atoms]
    bonds = [list(b) for b in bonds]
    byid = {a["id"]: a for a in atoms}
    hs = []
    for i, j, o in bonds:
        for h, c in ((i, j), (j, i)):
            if byid[h]["type"] == "H" and byid[c]["type"].startswith("C."):
                hs.append((h, c))
    rng.shuffle(hs)
    used, label = set(), []
    taken = set(a["name"] for a in atoms)

    def fresh(stem, n):
        nm = f"{stem}{n}"
        while nm in taken:
            n += 1
            nm = f"{stem}{n}"
        taken.add(nm)
        return nm
    for h, c in hs[:nsub]:
        if h in used:
            continue
        used.add(h)
        kind = rng.choice(sorted(SUBSTITUENTS))
        label.append(kind)
        ats, bds = SUBSTITUENTS[kind]
        base = np.array(byid[h]["xyz"])
        ids = {0: c}
        for k, (stem, typ) in enumerate(ats, start=1):
            if k == 1:
                taken.discard(byid[h]["name"])
                byid[h].update(name=fresh(stem, h), type=typ)        # the hydrogen becomes the first substituent atom
                ids[1] = h
            else:
                nid = max(a["id"] for a in atoms) + 1
                atoms.append({"id": nid, "name": fresh(stem, nid), "xyz": list(base + np.array([0.9 * k, 0.35 * k, -0.2 * k])), "type": typ, "rest": []})
                byid[nid] = atoms[-1]
                ids[k] = nid
        for i, j, o in bds:
            if (i, j) == (0, 1):
                continue                                              # that bond exists already (order 1)
            bonds.append([ids[i], ids[j], o])
    return atoms, bonds, "+".join(label)


def renamed(atoms, bonds):
    a2 = [dict(a, name=f"X{k}") for k, a in enumerate(atoms, start=1)]
    return a2, bonds


def renamed_descending(atoms, bonds):
    """names whose alphabetical order is the reverse of the file order"""
    n = len(atoms)
    a2 = [dict(a, name=f"Z{n - k:03d}") for k, a in enumerate(atoms)]
    return a2, bonds


def renamed_shuffled(atoms, bonds, rng):
    """the molecule's own names dealt out again at random"""
    names = [a["name"] for a in atoms]
    rng.shuffle(names)
    return [dict(a, name=nm) for a, nm in zip(atoms, names)], bonds


def renamed_case(atoms, bonds, style):
    """names with lower-case letters (element-cased "Cl1", all lower "c1")"""
    if style == "mixed":
        return [dict(a, name=f"{a['type'].split('.')[0][:1].upper()}l{k}") for k, a in enumerate(atoms, start=1)], bonds
    return [dict(a, name=f"{a['type'].split('.')[0][:1].lower()}x{k}") for k, a in enumerate(atoms, start=1)], bonds


def permuted(atoms, bonds, rng):
    order = list(range(len(atoms)))
    rng.shuffle(order)
    newid = {atoms[o]["id"]: k for k, o in enumerate(order, start=1)}
    a2 = [dict(atoms[o], id=newid[atoms[o]["id"]]) for o in order]
    b2 = [[newid[i], newid[j], o] for i, j, o in bonds]
    rng.shuffle(b2)
    return a2, b2, order


def with_counter_ion(atoms, bonds, typ="Cl"):
    n = max(a["id"] for a in atoms) + 1
    far = [max(a["xyz"][0] for a in atoms) + 4.0, 0.0, 0.0]
    return atoms + [{"id": n, "name": "ION1", "xyz": far, "type": typ, "rest": []}], bonds


def components(atoms, bonds):
    idx = {a["id"]: k for k, a in enumerate(atoms, start=1)}
    adj = {k: set() for k in idx.values()}
    for i, j, _ in bonds:
        adj[idx[i]].add(idx[j])
        adj[idx[j]].add(idx[i])
    seen, comps = set(), []
    for k in sorted(adj):
        if k in seen:
            continue
        st, comp = [k], []
        while st:
            x = st.pop()
            if x in seen:
                continue
            seen.add(x)
            comp.append(x)
            st += list(adj[x] - seen)
        comps.append(sorted(comp))
    return comps


def symmetry_class(atoms, bonds):
    """per atom: (type, sorted neighbour types, sorted neighbour-of-neighbour types) as a string"""
    idx = {a["id"]: a for a in atoms}
    nb = {a["id"]: [] for a in atoms}
    for i, j, _ in bonds:
        nb[i].append(j)
        nb[j].append(i)
    out = {}
    for a in atoms:
        n1 = sorted(idx[j]["type"] + "/" + ",".join(sorted(idx[k]["type"] for k in nb[j])) for j in nb[a["id"]])
        out[a["id"]] = a["type"] + "|" + ";".join(n1)
    return out


# ------------------------------------------------------------------ real code
def assign(text):
    """Mol2Molecule.read + assign_parameters with a per-cycle snapshot of the charges"""
    core.use_repo()
    from pdb2pqr.ligand import mol2 as pmol2, peoe, RADII

    m = pmol2.Mol2Molecule()
    m.read(io.StringIO(text))
    atoms = list(m.atoms.values())
    formal = [a.formal_charge for a in atoms]
    snaps = []
    state = {"last": None}

    def local(frame, event, arg):
        if event == "line":
            ic = frame.f_locals.get("icycle")
            if ic is not None and ic != state["last"]:
                if state["last"] is not None:
                    snaps.append([a.charge for a in frame.f_locals["atoms"]])
                state["last"] = ic
        elif event == "return" and state["last"] is not None:
            pass
        return local

    def tracer(frame, event, arg):
        if event == "call" and frame.f_code is peoe.equilibrate.__code__:
            return local
        return None
    old = sys.gettrace()
    sys.settrace(tracer)
    try:
        m.assign_parameters()
    finally:
        sys.settrace(old)
    final = [a.charge for a in atoms]
    # the last cycle's state is final / scale
    scale = peoe.SCALING_FACTOR
    snaps.append([q / scale for q in final])
    table = []
    for a in atoms:
        r = None
        for d in (RADII["zap9"], RADII["bondi"]):
            for key in (a.type, a.element):
                if r is None and key in d:
                    r = d[key]
        table.append(r if r is not None else -1.0)
    # the documented interface of the equilibration itself with other cycle counts (conservation does not depend on it)
    other = []
    for nc in (3, 12):
        try:
            m2 = pmol2.Mol2Molecule()
            m2.read(io.StringIO(text))
            at2 = list(m2.atoms.values())
            for a in at2:
                a.charge = a.formal_charge
            peoe.equilibrate(at2, num_cycles=nc)
            other.append({"nc": nc, "final": [a.charge for a in at2]})
        except Exception as e:
            other.append({"nc": nc, "exc": type(e).__name__})
    return {"names": [a.name for a in atoms], "formal": formal, "cycles": snaps, "final": final, "other_cycle_counts": other,
            "radii": [a.radius for a in atoms], "table": table, "scale": scale, "ncycles": peoe.NUM_CYCLES}


def _peoe_job(job):
    name, text, variant = job
    try:
        return assign(text)
    except Exception as e:
        return {"exc": f"{type(e).__name__}: {e}"[:200]}


def _complex_job(job):
    from .. import runner

    wd = os.path.join(core.VERIF, ".work", f"c16-{os.getpid()}")
    os.makedirs(wd, exist_ok=True)
    inp, out, lig = os.path.join(wd, "in.pdb"), os.path.join(wd, "o.pqr"), os.path.join(wd, "lig.mol2")
    open(inp, "w").write(job["pdb"])
    open(lig, "w").write(job["mol2"])
    res = {}
    for tag, args in (("with", [f"--ligand={lig}"]), ("base", [])):
        if tag == "with":
            # a ligand run has already happened in this process (the written result must not remember it)
            runner.run(["--ff=AMBER"] + job["opts"] + args + [inp, os.path.join(wd, "earlier.pqr")])
        r = runner.run(["--ff=AMBER"] + job["opts"] + args + [inp, out])
        recs = []
        if r["ok"]:
            for ln in open(out).read().split("\n"):
                if ln.startswith("HETATM"):
                    w = ln.split()
                    if w[0] != "HETATM":
                        w = ["HETATM", w[0][6:]] + w[1:]
                    recs.append({"name": w[2], "resname": w[3], "resseq": w[-6] if False else w[-6], "q": w[-2], "r": w[-1],
                                 "x": w[-5]})
        res[tag] = {"ok": r["ok"], "exc": r["exc_type"], "msg": str(r["exc"])[:100] if r["exc"] else "", "recs": recs}
    try:
        par = assign(job["mol2"])
        res["ligpar"] = {n: (f"{q:.4f}", f"{rad:.4f}") for n, q, rad in zip(par["names"], par["final"], par["radii"])}
    except Exception as e:
        res["ligpar"] = {}
    shutil.rmtree(wd, ignore_errors=True)
    return res


def run(ctx):
    rng = random.Random(ctx.seed)
    ctx.rule = ("molecules: the stored MOL2 files x variants (original, renamed, permuted, with unbonded counter-ion); "
                "complexes: peptide + ligand (one or two copies) + water + second hetero group, with/without name "
                "collisions.  Distinct = distinct (molecule, variant) or complex layout; non-trivial = molecule with a "
                "non-zero formal charge or more than one component / complex with a colliding or second group")
    ctx.assumptions += ["component sums compared at 1e-6 e with an allowance of 2n+2 units for n atoms (float summation)",
                        "an unbonded halide gets whatever formal charge pdb2pqr's valence table gives it; conservation is "
                        "judged against pdb2pqr's own formal_charge", "symmetry classes = atom type + neighbour types to depth 2"]
    ctx.trusted += ["vlib/checks/c16.py (MOL2 writer, per-cycle snapshot via sys.settrace, PQR HETATM parsing)", "TLC 1.8"]
    cfg = os.path.join(ctx.work, "p.cfg")

    def pcfg(skip, n=3, cyc=2):
        return (f"SPECIFICATION Spec\nCONSTANTS\n  NAtoms = {n}\n  NumCycles = {cyc}\n  Transfers = {{0, 1, 2}}\n"
                f"  SkipUnbonded = {skip}\nINVARIANT ComponentSumInvariant\n")
    open(cfg, "w").write(pcfg("FALSE", 3, 2 if ctx.quick else 3))
    r = core.run_tlc("Peoe", cfg, ctx.work, timeout=1200)
    core.need_ok(r, "Peoe")
    ctx.add_tlc(r, "conservation over all graphs on 3 atoms")
    if r.invariant:
        ctx.violation({"clause": "model:ComponentSumInvariant"}, "Peoe model violates conservation", {"tlc": r.out[-1500:]})
    open(cfg, "w").write(pcfg("TRUE"))
    r = core.run_tlc("Peoe", cfg, ctx.work, timeout=600)
    if not r.invariant:
        raise core.MachineryError("self-test failed: SkipUnbonded does not violate conservation")
    ctx.add_tlc(r, "SkipUnbonded deviation: violation found as required")

    files = sorted(glob.glob(os.path.join(DATA, "*.mol2")))
    if ctx.quick:
        files = sorted(set([f for f in files if os.path.getsize(f) < 9000] + [os.path.join(DATA, "1HPX-ligand.mol2"), os.path.join(DATA, "adp.mol2")]))
    jobs, meta = [], []
    sources = [(os.path.basename(f), open(f).read(), None) for f in files]
    for f in files:
        a0, b0 = parse_mol2(open(f).read())
        for k in range(1 if ctx.quick else 6):
            sa, sb, lab = substituted(a0, b0, rng, nsub=rng.choice([1, 2, 3]))
            if lab:
                sources.append((f"{os.path.basename(f)}[{lab}]#{k}", write_mol2(sa, sb), (sa, sb)))
    for fname_, text, pre in sources:
        f = fname_
        atoms, bonds = pre if pre else parse_mol2(text)
        base = write_mol2(atoms, bonds)
        ra, rb = renamed(atoms, bonds)
        pa, pb, order = permuted(atoms, bonds, rng)
        ia, ib = with_counter_ion(atoms, bonds)
        for variant, (a_, b_) in (("file", (None, None)), ("rewritten", (atoms, bonds)), ("renamed", (ra, rb)),
                                  ("renamed-descending", renamed_descending(atoms, bonds)), ("renamed-shuffled", renamed_shuffled(atoms, bonds, rng)),
                                  ("renamed-mixedcase", renamed_case(atoms, bonds, "mixed")), ("renamed-lowercase", renamed_case(atoms, bonds, "lower")),
                                  *([] if ctx.quick else [(f"renamed-shuffled{k}", renamed_shuffled(atoms, bonds, rng)) for k in range(2, 8)]),
                                  *([] if ctx.quick else [(f"permuted{k}", permuted(atoms, bonds, rng)[:2]) for k in range(2, 6)]),
                                  ("permuted", (pa, pb)), ("counter-ion", (ia, ib))):
            t = text if variant == "file" else write_mol2(a_, b_)
            jobs.append((os.path.basename(f), t, variant))
            meta.append({"atoms": a_ or atoms, "bonds": b_ or bonds, "order": order if variant == "permuted" else None})
    obs = core.pmap(_peoe_job, jobs, chunksize=2)
    traces = []
    byfile = {}
    for (fname, text, variant), m, o in zip(jobs, meta, obs):
        ctx.evaluations += 1
        if "exc" in o:
            if variant != "counter-ion":
                ctx.violation({"clause": "AssignParametersSucceeds", "variant": variant}, f"{fname} {variant}: {o['exc']}", {"mol2": text})
            else:
                ctx.drift.append({"molecule": fname, "variant": variant, "exc": o["exc"]})
            continue
        comps = components(m["atoms"], m["bonds"])
        mq = lambda v: int(round(v * 1e6))
        traces.append({"id": len(traces) + 1, "kind": "peoe", "comp": comps, "formal": [int(round(2 * f)) for f in o["formal"]],
                       "cycles": [[mq(q * o["scale"]) for q in c] for c in o["cycles"]], "final": [mq(q) for q in o["final"]],
                       "scale1000": int(round(o["scale"] * 1000)), "radii": [int(round(r * 1e4)) for r in o["radii"]],
                       "tableradii": [int(round(r * 1e4)) for r in o["table"]], "q1": [], "q2": [], "atoms": [],
                       "what": f"{fname} {variant}"})
        if variant == "rewritten":
            for alt in o.get("other_cycle_counts", []):
                if "final" in alt:
                    traces.append(dict(traces[-1], id=len(traces) + 1, cycles=[], final=[mq(q) for q in alt["final"]],
                                       what=f"{fname} equilibrate(num_cycles={alt['nc']})"))
                    ctx.evaluations += 1
        base_trace = next(t for t in reversed(traces) if t["what"] == f"{fname} {variant}")
        if len(o["cycles"]) != o["ncycles"]:
            # the loop of equilibrate is not shaped as the snapshot hook expects (it keys on the local `icycle`): judge the
            # final state only for this molecule and say so
            if len(ctx.drift) < 20:
                ctx.drift.append({"molecule": fname, "variant": variant, "per_cycle_snapshots": len(o["cycles"]), "cycles": o["ncycles"]})
            base_trace["cycles"] = [base_trace["cycles"][-1]] if base_trace["cycles"] else []
        if any(o["formal"]) or len(comps) > 1:
            ctx.nontrivial.add((fname, variant))
        byfile.setdefault(fname, {})[variant] = (o, m)
    for fname, v in byfile.items():
        if "rewritten" not in v:
            continue
        o0, m0 = v["rewritten"]
        cls0 = symmetry_class(m0["atoms"], m0["bonds"])
        key0 = sorted((cls0[a["id"]], int(round(q * 1e6))) for a, q in zip(m0["atoms"], o0["final"]))
        for variant in [x for x in v if x.startswith(("renamed", "permuted"))]:
            if variant not in v:
                continue
            o1, m1 = v[variant]
            cls1 = symmetry_class(m1["atoms"], m1["bonds"])
            key1 = sorted((cls1[a["id"]], int(round(q * 1e6))) for a, q in zip(m1["atoms"], o1["final"]))
            same_classes = [k[0] for k in key0] == [k[0] for k in key1]
            if variant.startswith("renamed"):
                # names only: the same atom (same place in the file, same coordinates) must get the same charge
                k0 = [int(round(q * 1e6)) for q in o0["final"]]
                k1 = [int(round(q * 1e6)) for q in o1["final"]]
                traces.append({"id": len(traces) + 1, "kind": "same", "comp": [], "formal": [], "cycles": [], "final": [],
                               "scale1000": 0, "radii": [], "tableradii": [], "q1": k0, "q2": k1, "atoms": [],
                               "what": f"{fname} rewritten vs {variant} (atom by atom)"})
                ctx.evaluations += 1
            traces.append({"id": len(traces) + 1, "kind": "same", "comp": [], "formal": [], "cycles": [], "final": [],
                           "scale1000": 0, "radii": [], "tableradii": [], "q1": [k[1] for k in key0],
                           "q2": [k[1] for k in key1] if same_classes else [], "atoms": [], "what": f"{fname} rewritten vs {variant}"})
            ctx.evaluations += 1
    # complexes
    pep = gen.peptide(["ALA", "SER", "LYS", "GLY", "ASP"])
    ace = open(os.path.join(DATA, "acetate.mol2")).read()
    atoms, bonds = parse_mol2(ace)
    mol2 = write_mol2(atoms, bonds)
    lig1 = gen.ligand_hetatm(os.path.join(DATA, "acetate.mol2"), chain="L", resseq=301, move_to=(-14, -12, 6))
    lig2 = gen.ligand_hetatm(os.path.join(DATA, "acetate.mol2"), chain="M", resseq=302, move_to=(18, 14, -9))
    wat = gen.water((6, 14, 4), chain="A", resseq=101) + gen.water((-5, 11, -9), chain="A", resseq=102)

    def other(names, resname="XYZ", resseq=401, at=(14, -16, 10)):
        return [{"rec": "HETATM", "name": n, "resname": resname, "chain": "X", "resseq": resseq, "icode": "",
                 "xyz": np.array(at) + np.array([1.4 * k, 0.3 * k, 0.0]), "element": n[0]} for k, n in enumerate(names)]
    layouts = {
        "ligand+water": [pep + wat, lig1],
        "ligand+water+other": [pep + wat, lig1, other(["S1", "O1", "O2"])],
        "ligand+colliding-other": [pep + wat, lig1, other(["CAA", "OAC", "Q1"])],
        "two-ligand-copies": [pep + wat, lig1, lig2],
        "other-before-ligand": [pep, other(["CAB", "Z9"]), lig1, wat],
        "ligand-first": [lig1, pep + wat],
    }
    # a disordered ligand: every atom (or some) in two alternate locations, the later one better occupied
    def disordered(lig, interleaved, part=1.0):
        a_, b_ = [], []
        for k, a in enumerate(lig):
            if k < part * len(lig):
                a_.append(dict(a, alt="A", occ=0.4))
                b_.append(dict(a, alt="B", occ=0.6, xyz=a["xyz"] + np.array([0.3, -0.2, 0.25])))
            else:
                a_.append(dict(a))
        if interleaved:
            out_ = []
            for a in a_:
                out_.append(a)
                out_ += [b for b in b_ if b["name"] == a["name"]]
            return out_
        return a_ + b_
    layouts["ligand-alternate-locations"] = [pep + wat, disordered(lig1, True)]
    layouts["ligand-alternate-locations-in-blocks"] = [pep + wat, disordered(lig1, False)]
    layouts["ligand-partly-disordered"] = [pep + wat, disordered(lig1, True, 0.5), other(["S1", "O1"])]
    cjobs = [{"name": k, "pdb": gen.pdb_text(v), "mol2": mol2, "opts": o}
             for k, v in layouts.items() for o in ([[]] if ctx.quick else [[], ["--noopt"], ["--whitespace"]])]
    # a ligand that carries the chain, number and some atom names of a protein residue (a docked ligand numbered from 1)
    ren = {"CAB": "C", "CAA": "CB", "OAC": "OX1", "OAD": "OX2", "HAA": "HX1", "HAB": "HX2", "HAC": "HX3"}
    atoms_r = [dict(a, name=ren.get(a["name"], a["name"])) for a in atoms]
    mol2_r = write_mol2(atoms_r, bonds)
    lig_r = [dict(a, name=ren.get(a["name"], a["name"]), chain="A", resseq=1) for a in lig1]
    lig_far = [dict(a, name=ren.get(a["name"], a["name"]), chain="A", resseq=500) for a in lig1]
    for k, v in (("ligand-numbered-like-residue-1", [pep + wat, lig_r]), ("ligand-protein-like-names", [pep + wat, lig_far])):
        cjobs.append({"name": k, "pdb": gen.pdb_text(v), "mol2": mol2_r, "opts": []})
    cres = core.pmap(_complex_job, cjobs, chunksize=1)
    for j, res in zip(cjobs, cres):
        ctx.evaluations += 1
        if not res["with"]["ok"] or not res["base"]["ok"]:
            ctx.violation({"clause": "ComplexRunSucceeds", "layout": j["name"],
                           "name_collision": j["name"] in ("ligand+colliding-other", "other-before-ligand")},
                          f"complex {j['name']}: with-ligand run {res['with']['exc']} {res['with']['msg']} / base run {res['base']['exc']}",
                          {"pdb": j["pdb"]})
            continue
        ctx.nontrivial.add((j["name"], tuple(j["opts"])))
        wanted = []
        for ln in j["pdb"].split("\n"):
            if ln.startswith("HETATM"):
                wanted.append({"name": ln[12:16].strip(), "resname": ln[17:20].strip(), "resseq": ln[22:26].strip()})
        atoms_obs = []
        for wa in wanted:
            key = lambda r: r["name"] == wa["name"] and r["resname"] in (wa["resname"], "WAT" if wa["resname"] == "HOH" else wa["resname"]) and r["resseq"] == wa["resseq"]
            w_with = [r for r in res["with"]["recs"] if key(r)]
            w_base = [r for r in res["base"]["recs"] if key(r)]
            group = "ligand" if wa["resname"] == "LIG" else ("water" if wa["resname"] == "HOH" else "other")
            ligpar = res["ligpar"].get(wa["name"])
            atoms_obs.append({"name": wa["name"], "res": f"{wa['resname']} {wa['resseq']}", "group": group,
                              "lines": len(w_with), "baselines": len(w_base),
                              "lig": bool(w_with) and ligpar is not None and (w_with[0]["q"], w_with[0]["r"]) == ligpar,
                              "base": [(r["q"], r["r"]) for r in w_with] == [(r["q"], r["r"]) for r in w_base]})
        traces.append({"id": len(traces) + 1, "kind": "complex", "comp": [], "formal": [], "cycles": [], "final": [], "scale1000": 0,
                       "radii": [], "tableradii": [], "q1": [], "q2": [], "atoms": atoms_obs, "what": f"complex {j['name']} {j['opts']}"})
    tf = core.write_json(os.path.join(ctx.work, "tr.json"), [{k: v for k, v in t.items() if k != "what"} for t in traces])
    open(cfg, "w").write("SPECIFICATION TSpec\nINVARIANT Report\n")
    r = core.run_tlc("PeoeTrace", cfg, ctx.work, workers=4, env={"TRACE_FILE": tf}, timeout=1200)
    core.need_ok(r, "PeoeTrace")
    ctx.add_tlc(r, "trace validation")
    got = {v[1]: v for v in r.printed if isinstance(v, list) and v and v[0] == "T"}
    if len(got) != len(traces):
        raise core.MachineryError(f"{len(got)} verdicts for {len(traces)} traces; {r.unparsed[:2]} {r.out[-600:]}")
    ctx.traces += len(traces)
    for t in traces:
        for cl in got[t["id"]][2]:
            detail, key = "", {"clause": cl, "what": t["what"].split()[0] if t["kind"] != "complex" else t["what"].split()[1]}
            if t["kind"] == "complex":
                bad = [a for a in t["atoms"] if (a["group"] == "ligand" and not (a["lines"] == 1 and a["lig"])) or
                       (a["group"] != "ligand" and not (a["base"] and a["lines"] == a["baselines"]))]
                detail = json.dumps(bad[:4])
                key = {"clause": cl, "layout": t["what"].split()[1], "groups": "+".join(sorted(set(a["group"] for a in bad))),
                       "name_collision": t["what"].split()[1] in ("ligand+colliding-other", "other-before-ligand")}
            elif t["kind"] == "peoe":
                key = {"clause": cl, "variant": t["what"].split()[1]}
                detail = f"formal x2 {t['formal']} final {t['final']} components {t['comp']}"[:300]
            ctx.violation(key, f"{t['what']}: {cl} {detail}", {k: t[k] for k in t if k not in ("cycles",)})
    p0 = [t for t in traces if t["kind"] == "peoe"]
    ctx.sample({"what": p0[0]["what"], "formal_x2": p0[0]["formal"], "final_micro_e": p0[0]["final"], "components": p0[0]["comp"],
                "sum_after_each_cycle": [sum(c) for c in p0[0]["cycles"]]})
    c0 = [t for t in traces if t["kind"] == "complex"]
    if c0:
        ctx.sample({"what": c0[0]["what"], "hetatm_atoms": c0[0]["atoms"][:5]})
