"""C11 - runs are deterministic and independent of process history.

(M) TLC: History.tla over all histories <= MaxRuns of nine configurations (OutputFunctionOfConfig, SameAsFresh); with
    the Leak deviation TLC must find the violation.
(R) TLC emits the histories; each is executed in a fresh interpreter (vlib/histchild.py) through run_pdb2pqr, under
    several PYTHONHASHSEED values, one of them ending through the console entry point.
(T) TLC (HistoryTrace) consumes the outcomes of all processes and requires one outcome per configuration.
"""
import json
import os
import random
import shutil
import subprocess
import sys

from .. import core, gen

LEVEL = "model_checking"
DATA = os.path.join(core.REPO, "tests", "data")


def build_files(fd):
    """the input files of the nine configurations"""
    os.makedirs(fd, exist_ok=True)
    pep = gen.peptide(["ALA", "ASP", "HIS", "LYS", "SER", "GLU"])
    wat = gen.water((6.0, 14.0, 4.0), resseq=101) + gen.water((-3.0, 9.0, -7.0), resseq=102)
    open(os.path.join(fd, "a.pdb"), "w").write(gen.pdb_text([pep + wat]))
    shutil.copy(os.path.join(DATA, "cterm_hid.pdb"), os.path.join(fd, "b.pdb"))
    # names file without the water entry (different naming map under the same --ff)
    names = open(os.path.join(core.REPO, "pdb2pqr", "dat", "AMBER.names")).read()
    import re
    nowat = re.sub(r"<residue>\s*<name>WAT</name>.*?</residue>", "", names, flags=re.S)
    if nowat == names:
        raise core.MachineryError("could not derive a names file without WAT")
    open(os.path.join(fd, "nowat.names"), "w").write(nowat)
    shutil.copy(os.path.join(DATA, "custom-ff.dat"), os.path.join(fd, "u1.dat"))
    shutil.copy(os.path.join(DATA, "custom.names"), os.path.join(fd, "u.names"))
    rows = []
    for ln in open(os.path.join(DATA, "custom-ff.dat")):
        w = ln.split()
        if len(w) >= 4 and not ln.startswith("#") and w[1] == "CB":
            w[3] = f"{float(w[3]) + 0.5:.4f}"       # other radii: same charges, different file
            ln = "\t".join(w) + "\n"
        rows.append(ln)
    open(os.path.join(fd, "u2.dat"), "w").write("".join(rows))
    # damaged input: several heavy atoms missing per residue (repair order must not depend on hashing)
    seq = ["ALA", "HIS", "ARG", "VAL", "PHE", "GLY", "LEU", "SER", "THR", "ASN", "GLN", "MET", "TRP", "ALA"]
    omit = {(1, "ND1"), (1, "CD2"), (1, "CE1"), (1, "NE2"), (2, "NH1"), (2, "NH2"), (3, "CG1"), (3, "CG2"),
            (6, "CD1"), (6, "CD2")}
    open(os.path.join(fd, "d.pdb"), "w").write(gen.pdb_text([gen.peptide(seq, omit=omit)]))
    open(os.path.join(fd, "junk.pdb"), "w").write("\x00\x01 not a structure\nfoo bar\n")
    # a readable structure among records that cannot be parsed (several record types), and a well-formed two-model file
    good = gen.pdb_text([pep + wat]).split("\n")
    bad = ["MODEL 1", "SSBOND this is not an ssbond record", "CONECT abc def", "HET    ???", "SITE   x", "CISPEP  oops", "HELIX bad", "SHEET bad",
           "REMARK", "ANISOU   xx", "SEQRES nothing", "LINK  bad", "MODRES ?", "CRYST1 a b c", "ORIGX1 a", "SCALE1 b", "MTRIX1 c", "TVECT d"]
    open(os.path.join(fd, "e.pdb"), "w").write("\n".join(bad + good))
    m1 = gen.peptide(["ALA", "SER", "LYS", "GLY"])
    m2 = gen.transform(m1, t=(0.4, -0.3, 0.2))
    body = lambda atoms: gen.pdb_text([atoms], end=False).rstrip("\n")
    open(os.path.join(fd, "m.pdb"), "w").write(f"MODEL        1\n{body(m1)}\nENDMDL\nMODEL        2\n{body(m2)}\nENDMDL\nEND\n")
    # mmCIF inputs: one without the optional insertion-code column, one with insertion codes
    from . import c10
    rows = dict(c10.structures(random.Random(0)))
    plain_cif = c10.cif_text(rows["plain"])
    lines, drop = [], c10.ITEMS.index("pdbx_PDB_ins_code")
    for ln in plain_cif.split("\n"):
        if ln.strip() == "_atom_site.pdbx_PDB_ins_code":
            continue
        w = ln.split()
        if len(w) == len(c10.ITEMS) and w[0] in ("ATOM", "HETATM"):
            ln = " ".join(w[:drop] + w[drop + 1:]) + " "
        lines.append(ln)
    open(os.path.join(fd, "x1.cif"), "w").write("\n".join(lines))
    open(os.path.join(fd, "x2.cif"), "w").write(c10.cif_text(rows["insertion-codes"]))
    # inputs that make pdb2pqr hand out chain identifiers: no chain column at all; two peptides under one id (hidden end)
    open(os.path.join(fd, "k.pdb"), "w").write(gen.pdb_text([gen.peptide(["ALA", "SER", "LYS"], chain=""), gen.transform(gen.peptide(["GLY", "ASP"], chain="", start=11), t=(0, 0, 30))]))
    two = gen.peptide(["LYS", "ALA", "SER"], chain="A", start=1) + gen.transform(gen.peptide(["GLY", "ASP"], chain="A", start=4), t=(0, 0, 30))
    open(os.path.join(fd, "h.pdb"), "w").write(gen.pdb_text([two]))
    # a run that fails in the middle of the pipeline (not in parsing, not in the final charge check): a water given without its
    # oxygen makes the set-up of the hydrogen-bond optimisation raise - with --noopt after the definitions were narrowed to water
    w0 = [dict(a, name="H1") for a in gen.water((6, 14, 4), resseq=101)]
    open(os.path.join(fd, "f3.pdb"), "w").write(gen.pdb_text([pep + w0 + gen.water((-7, 12, 3), resseq=102)]))
    # nucleic acids under one-letter residue names: ribonucleotides, and deoxynucleotides (no O2') written the same way
    open(os.path.join(fd, "n1.pdb"), "w").write(gen.pdb_text([gen.nucleic("ACGU", "R")]))
    open(os.path.join(fd, "n2.pdb"), "w").write(gen.pdb_text([gen.nucleic("ACG", "D", names=["A", "C", "G"])]))
    # ligand complexes
    for nm, mol in (("l1", "ethanol.mol2"), ("l2", "acetate.mol2")):
        shutil.copy(os.path.join(DATA, mol), os.path.join(fd, nm + ".mol2"))
        lig = gen.ligand_hetatm(os.path.join(DATA, mol), move_to=(-14, -12, 6))
        open(os.path.join(fd, nm + ".pdb"), "w").write(gen.pdb_text([gen.peptide(["ALA", "SER", "LYS"]), lig, gen.water((6, 14, 4), resseq=101)]))
    return {
        "A": {"input": "a.pdb", "args": ["--ff=AMBER"]},
        "B": {"input": "b.pdb", "args": ["--ff=PARSE", "--whitespace", "--keep-chain"]},
        "C": {"input": "a.pdb", "args": ["--ff=AMBER", "--usernames=@DIR@/nowat.names"]},
        "U1": {"input": "a.pdb", "args": ["--userff=@DIR@/u1.dat", "--usernames=@DIR@/u.names"]},
        "U2": {"input": "a.pdb", "args": ["--userff=@DIR@/u2.dat", "--usernames=@DIR@/u.names"]},
        "D": {"input": "d.pdb", "args": ["--ff=AMBER"]},
        "F1": {"input": "junk.pdb", "args": ["--ff=AMBER"]},
        "F2": {"input": "a.pdb", "args": ["--ff=AMBER", "--assign-only"]},
        "P": {"input": "a.pdb", "args": ["--ff=CHARMM", "--titration-state-method=propka", "--with-ph=4", "--ffout=AMBER"]},
        "E": {"input": "e.pdb", "args": ["--ff=AMBER"]},
        "M": {"input": "m.pdb", "args": ["--ff=AMBER", "--nodebump"]},
        "X1": {"input": "x1.cif", "args": ["--ff=AMBER"]},
        "X2": {"input": "x2.cif", "args": ["--ff=PARSE"]},
        "L1": {"input": "l1.pdb", "args": ["--ff=AMBER", "--ligand=@DIR@/l1.mol2"]},
        "L2": {"input": "l2.pdb", "args": ["--ff=AMBER", "--ligand=@DIR@/l2.mol2", "--keep-chain"]},
        "L3": {"input": "l1.pdb", "args": ["--ff=PARSE", "--ligand=@DIR@/l1.mol2"]},
        "PA": {"input": "a.pdb", "args": ["--ff=AMBER", "--titration-state-method=propka", "--with-ph=2"]},
        "K": {"input": "k.pdb", "args": ["--ff=AMBER", "--keep-chain", "--noopt"]},
        "H": {"input": "h.pdb", "args": ["--ff=PARSE", "--keep-chain"]},
        "F3": {"input": "f3.pdb", "args": ["--ff=AMBER", "--noopt"]},
        "F4": {"input": "f3.pdb", "args": ["--ff=AMBER"]},
        "N1": {"input": "n1.pdb", "args": ["--ff=AMBER"]},
        "N2": {"input": "n2.pdb", "args": ["--ff=AMBER"]},
    }


def _work(job):
    hist, seed, cli, files, configs = job
    wd = os.path.join(core.VERIF, ".work", f"c11-{os.getpid()}")
    os.makedirs(wd, exist_ok=True)
    sp = os.path.join(wd, "spec.json")
    json.dump({"repo": core.REPO, "workdir": wd, "files": files, "history": hist, "configs": configs, "cli": cli}, open(sp, "w"))
    env = dict(os.environ, PYTHONHASHSEED=str(seed), PYTHONDONTWRITEBYTECODE="1")
    p = subprocess.run([sys.executable, os.path.join(core.VERIF, "vlib", "histchild.py"), sp], env=env, capture_output=True,
                       text=True, timeout=600)
    runs = []
    for ln in p.stdout.splitlines():
        if ln.startswith("{"):
            runs.append(json.loads(ln))
    shutil.rmtree(wd, ignore_errors=True)
    return {"seed": seed, "cli": cli, "runs": runs, "complete": len(runs) == len(hist), "stderr": p.stderr[-300:]}


def run(ctx):
    rng = random.Random(ctx.seed)
    ctx.rule = ("histories <= 3 runs over twenty-three configurations (two built-in force-field runs, a --usernames variant of the "
                "same --ff, two user force fields, an input needing multi-atom repair, a run failing in parsing, a run "
                "failing in the charge check, a PROPKA run, an input among unparseable records, a two-model file, two mmCIF inputs with different optional columns, two ligand complexes, a low-pH PROPKA run under AMBER, two inputs for which chain identifiers are handed out), each in a fresh interpreter x hash seeds; quick: all of length "
                "<= 2 plus a seeded sample of length 3.  Distinct = distinct (history, seed); non-trivial = length >= 2")
    ctx.assumptions += ["hash seeds are sampled (seeded by VERIF_SEED), not exhausted",
                        "the verdict is on the bytes of the PQR file (or the exception class) only"]
    ctx.trusted += ["vlib/histchild.py", "TLC 1.8"]
    cfg = os.path.join(ctx.work, "h.cfg")
    names = ["A", "B", "C", "U1", "U2", "D", "F1", "F2", "P", "E", "M", "X1", "X2", "L1", "L2", "PA", "K", "H", "L3", "F3", "F4", "N1", "N2"]

    def cfg_text(leak, emit, invs, maxruns=3):
        s = ("SPECIFICATION Spec\nCONSTANTS\n  Configs = {" + ", ".join(json.dumps(n) for n in names) + "}\n"
             f"  MaxRuns = {maxruns}\n  Leak = {leak}\n  LeakFrom = \"C\"\n  LeakTo = \"A\"\n  Emit = {emit}\n")
        return s + "".join(f"INVARIANT {i}\n" for i in invs)
    open(cfg, "w").write(cfg_text("FALSE", "FALSE", ["OutputFunctionOfConfig", "SameAsFresh"]))
    r = core.run_tlc("History", cfg, ctx.work, timeout=600)
    core.need_ok(r, "History")
    ctx.add_tlc(r, "all histories <= 3")
    if r.invariant:
        ctx.violation({"clause": "model:" + r.invariant}, "History model violates " + r.invariant, {})
    open(cfg, "w").write(cfg_text("TRUE", "FALSE", ["OutputFunctionOfConfig", "SameAsFresh"]))
    r = core.run_tlc("History", cfg, ctx.work, timeout=600)
    if not r.invariant:
        raise core.MachineryError("self-test failed: Leak does not violate the invariants")
    ctx.add_tlc(r, "Leak deviation: violation found as required")
    open(cfg, "w").write(cfg_text("FALSE", "TRUE", ["EmitInv"]))
    r = core.run_tlc("History", cfg, ctx.work, workers=1, timeout=600)
    core.need_ok(r, "History emit")
    ctx.add_tlc(r, "history emission")
    hists = [json.loads(v[1:]) for v in r.printed if isinstance(v, str) and v.startswith("@")]
    if len(hists) != len(names) + len(names) ** 2 + len(names) ** 3:
        raise core.MachineryError(f"emitted {len(hists)} histories")
    files = os.path.join(ctx.work, "files")
    configs = build_files(files)
    short = [h for h in hists if len(h) <= 2]
    long_ = [h for h in hists if len(h) == 3]
    rng.shuffle(long_)
    chosen = short + (long_[:90] if ctx.quick else long_[:1500])
    seeds = [rng.randrange(1, 2 ** 31) for _ in range(1 if ctx.quick else 3)] + [0]
    jobs = []
    for i, h in enumerate(chosen):
        for k, sd in enumerate(seeds if len(h) > 1 or not ctx.quick else seeds[:2]):
            if ctx.quick and len(h) == 3 and k > 0:
                continue
            jobs.append((h, sd, (i + k) % 7 == 0, files, configs))
    res = core.pmap(_work, jobs, chunksize=2)
    procs = []
    for (h, sd, cli, _f, _c), o in zip(jobs, res):
        if not o["complete"]:
            raise core.MachineryError(f"child process for history {h} did not finish: {o['stderr']}")
        procs.append({"seed": sd, "runs": o["runs"], "hist": h, "cli": cli})
        ctx.evaluations += 1
        if len(h) >= 2:
            ctx.nontrivial.add((tuple(h), sd))
    tf = core.write_json(os.path.join(ctx.work, "tr.json"), {"procs": [{"seed": p["seed"], "runs": p["runs"]} for p in procs]})
    tcfg = os.path.join(ctx.work, "t.cfg")
    open(tcfg, "w").write("SPECIFICATION TSpec\nINVARIANT AtEnd\n")
    r = core.run_tlc("HistoryTrace", tcfg, ctx.work, workers=1, env={"TRACE_FILE": tf}, timeout=1200)
    core.need_ok(r, "HistoryTrace")
    ctx.add_tlc(r, "trace validation")
    if not any(isinstance(v, list) and v and v[0] == "END" for v in r.printed):
        raise core.MachineryError("HistoryTrace did not reach the end: " + r.out[-500:])
    ctx.traces += len(procs)
    # sanity of the configurations themselves: the failing ones fail, the others produce a file
    first = {}
    for p in procs:
        for run_ in p["runs"]:
            first.setdefault(run_["cfg"], run_["out"])
    bad = [c for c in ("A", "B", "C", "U1", "U2", "D", "P") if c in first and len(first[c]) != 40]
    if bad or len(first.get("F1", "x" * 40)) == 40 or len(first.get("F2", "x" * 40)) == 40:
        raise core.MachineryError(f"configurations do not behave as designed: {first}")
    if len({first.get("U1"), first.get("U2")}) < 2 or len({first.get("A"), first.get("C")}) < 2:
        raise core.MachineryError("configurations meant to differ give identical output")
    for v in r.printed:
        if isinstance(v, list) and v and v[0] == "DIFF":
            p = procs[v[1] - 1]
            prev = p["hist"][:v[2] - 1]
            ctx.violation({"clause": "OutputFunctionOfConfig", "cfg": v[3],
                           "after": "fresh-process" if not prev else "+".join(sorted(set(prev)))},
                          f"configuration {v[3]} gave a different outcome as run #{v[2]} of history {p['hist']} "
                          f"(hash seed {p['seed']}): {p['runs'][v[2]-1]['out']} vs first seen {first[v[3]]}",
                          {"history": p["hist"], "seed": p["seed"], "runs": p["runs"], "configs": configs})
    ctx.sample({"history": procs[len(procs) // 2]["hist"], "seed": procs[len(procs) // 2]["seed"],
                "runs": procs[len(procs) // 2]["runs"]})
    ctx.extra["processes"] = len(procs)
    ctx.extra["hash_seeds"] = seeds
