"""C06 - titration follows pKa versus pH and stays within force-field support.

(M) TLC: Titration.tla over every residue cell (position x side-chain group x force field x pH side of the terminus key
    x pH side of the side-chain key) with Supported extracted from the current force-field files: WithinSupport.
(R) every cell is replayed on a generated tripeptide through the whole pipeline with the pKa source (main.run_propka)
    replaced by a harness table; patches applied by apply_pka_values, warnings, final state and presence in the output
    are observed.
(T) TLC (TitrationTrace) replays the three decisions per residue, compares the patch sequence and evaluates the C06
    clauses on the observations; real-PROPKA pH sweeps must give a non-increasing total charge.
"""
import json
import logging
import os
import random
import shutil

from .. import core, gen

LEVEL = "model_checking"
DATA = os.path.join(core.REPO, "tests", "data")
NONDEF = {"NTERM": "NEUTRAL-NTERM", "CTERM": "NEUTRAL-CTERM", "ARG": "AR0", "ASP": "ASH", "CYS": "CYM", "GLU": "GLH",
          "HIS": "HIP", "LYS": "LYN", "TYR": "TYM"}
GROUPS = ["ARG", "ASP", "CYS", "GLU", "HIS", "LYS", "TYR"]
CODE_CONSTS = {"GuardFix": "TRUE"}
PKA = {"below": 8.0, "equal": 7.0, "above": 6.0}      # pH is 7.0


def tripeptide(pos, resname):
    seq = ["ALA", "ALA", "ALA"]
    idx = {"N": 0, "I": 1, "C": 2}[pos]
    seq[idx] = resname
    return seq, idx


def _support_job(job):
    """is the non-default state, named in the input, fully parameterised at this position by this force field?"""
    from .. import runner

    ff, group, pos = job
    wd = os.path.join(core.VERIF, ".work", f"c06s-{os.getpid()}")
    os.makedirs(wd, exist_ok=True)
    args = [f"--ff={ff.upper()}"]
    if group in ("NTERM", "CTERM"):
        seq, idx = tripeptide(pos, "ALA")
        args.append("--neutraln" if group == "NTERM" else "--neutralc")
    else:
        seq, idx = tripeptide(pos, NONDEF[group])
    open(os.path.join(wd, "in.pdb"), "w").write(gen.pdb_text([gen.peptide(seq)]))
    r = runner.run(args + [os.path.join(wd, "in.pdb"), os.path.join(wd, "o.pqr")])
    ok = False
    if r["ok"]:
        res = r["bio"].residues[idx]
        missed = set(id(a) for a in (r["missed"] or []))
        full = not any(id(a) in missed for a in res.atoms)
        want = NONDEF[group].replace("NEUTRAL-NTERM", "NEUTRAL-N").replace("NEUTRAL-CTERM", "NEUTRAL-C")
        ok = full and want in res.ffname
    shutil.rmtree(wd, ignore_errors=True)
    return ok


class _Capture(logging.Handler):
    def __init__(self):
        super().__init__(level=logging.WARNING)
        self.msgs = []

    def emit(self, record):
        try:
            self.msgs.append(record.getMessage())
        except Exception:
            self.msgs.append(str(record.msg))


def rr_ff(j):
    return j["res"]["ff"].lower()


def _cell_job(job):
    from .. import runner

    res = job["res"]
    core.use_repo()
    import pdb2pqr.main as pmain
    import pdb2pqr.biomolecule as bm

    wd = os.path.join(core.VERIF, ".work", f"c06-{os.getpid()}")
    os.makedirs(wd, exist_ok=True)
    seq, idx = tripeptide(res["pos"], res["group"] or "ALA")
    start = job.get("start", 1)
    if job.get("nochain"):
        # no chain identifiers, no TER record, one water kept in the structure
        open(os.path.join(wd, "in.pdb"), "w").write(gen.pdb_text([gen.peptide(seq, start=start, chain="") + gen.water((6, 14, 4), chain="", resseq=101)], ter=False))
    else:
        open(os.path.join(wd, "in.pdb"), "w").write(gen.pdb_text([gen.peptide(seq, start=start)]))
    num = idx + start
    rows = []
    if res["pos"] == "N":
        rows.append({"res_name": "N+ ", "res_num": f"{num:>3}", "chain_id": "A", "group_label": f"{'N+':<3s}{num:>4d}{'A':>2s}", "pKa": PKA[res["sideT"]]})
    if res["pos"] == "C":
        rows.append({"res_name": "C- ", "res_num": f"{num:>3}", "chain_id": "A", "group_label": f"{'C-':<3s}{num:>4d}{'A':>2s}", "pKa": PKA[res["sideT"]]})
    if res["group"]:
        rows.append({"res_name": res["group"], "res_num": num, "chain_id": "A", "group_label": f"{res['group']:<3s}{num:>4d}{'A':>2s}",
                     "pKa": PKA[res["sideG"]]})
    applied = []
    in_pka = [False]
    orig_run, orig_apply, orig_patch = pmain.run_propka, bm.Biomolecule.apply_pka_values, bm.Biomolecule.apply_patch

    def fake_propka(args, biomolecule):
        return [dict(r) for r in rows], "harness-supplied pKa table"

    def apply_pka(self, *a, **kw):
        in_pka[0] = True
        try:
            return orig_apply(self, *a, **kw)
        finally:
            in_pka[0] = False

    def apply_patch(self, patchname, residue):
        if in_pka[0] and residue.res_seq == num:
            applied.append(patchname)
        return orig_patch(self, patchname, residue)
    cap = _Capture()
    lg = logging.getLogger("pdb2pqr.biomolecule")
    pmain.run_propka, bm.Biomolecule.apply_pka_values, bm.Biomolecule.apply_patch = fake_propka, apply_pka, apply_patch
    logging.disable(logging.NOTSET)
    old_level = lg.level
    lg.setLevel(logging.WARNING)
    lg.addHandler(cap)
    try:
        r = runner.run([f"--ff={res['ff'].upper()}", "--titration-state-method=propka", "--with-ph=7.0"]
                       + ([f"--ffout={job['ffout']}"] if job.get("ffout") else [])
                       + [os.path.join(wd, "in.pdb"), os.path.join(wd, "o.pqr")])
    finally:
        lg.removeHandler(cap)
        lg.setLevel(old_level)
        logging.disable(logging.CRITICAL)
        pmain.run_propka, bm.Biomolecule.apply_pka_values, bm.Biomolecule.apply_patch = orig_run, orig_apply, orig_patch
    warned = []
    for m in cap.msgs:
        if "N-terminal N+" in m:
            warned.append("NTERM")
        elif "C-terminal C-" in m:
            warned.append("CTERM")
        elif res["group"] and f"{res['group']} {num} A" in m and "could not identify" not in m:
            warned.append(res["group"])
    obs = {"patches": applied, "nondef": [], "warned": sorted(set(warned)), "dropped": False, "exc": r["exc_type"],
           "ffname": "", "msg": str(r["exc"])[:120] if r["exc"] else ""}
    if not r["ok"]:
        obs["dropped"] = True
    else:
        resobj = [x for x in r["bio"].residues if x.res_seq == num]
        if not resobj:
            obs["dropped"] = True
        else:
            ro = resobj[0]
            missed = set(id(a) for a in (r["missed"] or []))
            obs["dropped"] = any(id(a) in missed for a in ro.atoms)
            obs["ffname"] = ro.ffname
            keys = (["NTERM"] if res["pos"] == "N" else []) + (["CTERM"] if res["pos"] == "C" else []) + \
                   ([res["group"]] if res["group"] else [])
            for g in keys:
                tag = {"NTERM": "NEUTRAL-N", "CTERM": "NEUTRAL-C"}.get(g, NONDEF[g])
                if tag in ro.ffname:
                    obs["nondef"].append(g)
    shutil.rmtree(wd, ignore_errors=True)
    return obs


def _sweep_job(job):
    from .. import runner

    name, text, ff, phs = job
    wd = os.path.join(core.VERIF, ".work", f"c06w-{os.getpid()}")
    os.makedirs(wd, exist_ok=True)
    open(os.path.join(wd, "in.pdb"), "w").write(text)
    out = []
    base = runner.run([f"--ff={ff}", os.path.join(wd, "in.pdb"), os.path.join(wd, "o.pqr")])
    base_missed = set()
    if base["ok"]:
        base_missed = set((a.residue.name, a.residue.res_seq, a.residue.chain_id) for a in (base["missed"] or []))
    for ph in phs:
        r = runner.run([f"--ff={ff}", "--titration-state-method=propka", f"--with-ph={ph}", os.path.join(wd, "in.pdb"),
                        os.path.join(wd, "o.pqr")])
        if not r["ok"]:
            out.append({"ph": ph, "exc": r["exc_type"], "msg": str(r["exc"])[:100], "charge": None, "missed": None})
            continue
        missed = set(id(a) for a in (r["missed"] or []))
        q = sum(a.ffcharge for a in r["bio"].atoms if id(a) not in missed and a.ffcharge is not None)
        dropped = sorted(set(f"{a.residue.name} {a.residue.res_seq} {a.residue.chain_id}" for a in r["bio"].atoms
                             if id(a) in missed and (a.residue.name, a.residue.res_seq, a.residue.chain_id) not in base_missed))
        core.use_repo()
        from pdb2pqr import aa
        nt = [res.ffname for res in r["bio"].residues if isinstance(res, aa.Amino) and res.is_n_term]
        ct = [res.ffname for res in r["bio"].residues if isinstance(res, aa.Amino) and res.is_c_term]
        out.append({"ph": ph, "exc": "", "charge": int(round(q * 10000)), "missed": dropped, "nterm": nt, "cterm": ct})
    shutil.rmtree(wd, ignore_errors=True)
    return out


def run(ctx):
    rng = random.Random(ctx.seed)
    ffs = [f.lower() for f in gen.FORCE_FIELDS]
    ctx.rule = ("cells: position {N,I,C} x side-chain group {7 titratable, none} x 6 force fields x pH side of the terminus "
                "key x pH side of the side-chain key, each replayed on ALA tripeptides with a harness pKa table (pH 7, pKa "
                "8/7/6); distinct = distinct cell; non-trivial = at least one key selects the non-default state.  pH sweeps "
                "with real PROPKA on generated and repository inputs")
    ctx.assumptions += ["Supported(ff, group, position) = a tripeptide with the residue *named* in its non-default state at "
                        "that position is fully parameterised by the force field (neutral termini: with --neutraln/--neutralc)",
                        "terminus keys are supplied in the form apply_pka_values expects ('N+    1 A'); with the real PROPKA "
                        "adapter these keys never reach it (see known findings)"]
    ctx.trusted += ["vlib/checks/c06.py (pKa table injection, observation of patches/warnings/state)", "TLC 1.8"]
    # Supported from the current tree
    sjobs = [(ff, g, pos) for ff in ffs for g in GROUPS for pos in "NIC"] + \
            [(ff, "NTERM", "N") for ff in ffs] + [(ff, "CTERM", "C") for ff in ffs]
    sres = core.pmap(_support_job, sjobs, chunksize=2)
    supported = [list(j) for j, ok in zip(sjobs, sres) if ok]
    ctx.extra["supported"] = {ff: sorted(f"{g}@{p}" for f, g, p in supported if f == ff) for ff in ffs}
    mod = os.path.join(ctx.work, "MC_TitrationGen.tla")
    open(mod, "w").write(
        "---- MODULE MC_TitrationGen ----\n(* generated at run time by vlib/checks/c06.py from the current force-field files *)\n"
        "EXTENDS Titration\nGenSupported == {" + ", ".join(f'<<"{a}", "{b}", "{c}">>' for a, b, c in supported) + "}\n====\n")
    cfg = os.path.join(ctx.work, "t.cfg")

    def cfg_text(emit, inv, spec="Spec", module_supported=True):
        return (f"SPECIFICATION {spec}\nCONSTANTS\n  FFs = {{" + ", ".join(json.dumps(f) for f in ffs) + "}\n"
                f"  SupportedSet <- GenSupported\n  GuardFix = {CODE_CONSTS['GuardFix']}\n  Emit = {emit}\nINVARIANT {inv}\n")
    try:
        open(cfg, "w").write(cfg_text("FALSE", "WithinSupport"))
        r = core.run_tlc(mod, cfg, ctx.work, timeout=600)
        core.need_ok(r, "Titration")
        ctx.add_tlc(r, "all residue cells: WithinSupport")
        if r.invariant:
            ctx.violation({"clause": "model:WithinSupport", "ff": None, "group": None, "pos": None},
                          "the guard table of the current tree lets a state through that the force-field files of the "
                          "current tree cannot parameterise (or guards a supported one)", {"tlc": r.out[-2500:]})
        open(cfg, "w").write(cfg_text("FALSE", "WithinSupport").replace("GuardFix = TRUE", "GuardFix = FALSE"))
        r0 = core.run_tlc(mod, cfg, ctx.work, timeout=600)
        if not r0.invariant:
            raise core.MachineryError("self-test failed: the historical guard lists do not violate WithinSupport")
        ctx.add_tlc(r0, "historical guard lists: violation found as required")
        open(cfg, "w").write(cfg_text("TRUE", "EmitInv"))
        r = core.run_tlc(mod, cfg, ctx.work, workers=4, timeout=600)
        core.need_ok(r, "Titration emit")
        ctx.add_tlc(r, "cell emission")
    finally:
        pass
    cells = [json.loads(v[1:]) for v in r.printed if isinstance(v, str) and v.startswith("@")]
    if len(cells) != 6 * 3 * 8 * 3 * 3:
        os.unlink(mod)
        raise core.MachineryError(f"emitted {len(cells)} cells")
    ctx.exhaustive = True
    # sideT is irrelevant for internal residues, sideG for residues without a group: fold duplicates
    seen, jobs = set(), []
    for c in cells:
        rr = dict(c["res"])
        if rr["pos"] == "I":
            rr["sideT"] = "below"
        if rr["group"] == "":
            rr["sideG"] = "below"
        k = json.dumps(rr, sort_keys=True)
        if k in seen:
            continue
        seen.add(k)
        jobs.append({"res": rr, "model_patches": c["patches"]})
    # twins of the cells under conditions the decision must not depend on: another naming scheme (--ffout), residue
    # numbers with four digits (PROPKA packs "ASP1000 A")
    twins = []
    for n, j in enumerate(jobs):
        if ctx.quick and (n + ctx.seed) % 3:
            continue
        other = "PARSE" if rr_ff(j) != "parse" else "AMBER"
        twins.append(dict(j, ffout=other, variant=f"--ffout={other}"))
        twins.append(dict(j, start=999, variant="residue numbers 999-1001"))
        if (n + ctx.seed) % 2 == 0 or not ctx.quick:
            twins.append(dict(j, nochain=True, variant="no chain ids, no TER, one water"))
    jobs += twins
    obs = core.pmap(_cell_job, jobs, chunksize=4)
    traces = []
    for j, o in zip(jobs, obs):
        traces.append({"id": len(traces) + 1, "kind": "cell", "res": j["res"], "obs": o, "charges": [], "variant": j.get("variant", "")})
        ctx.evaluations += 1
        rr = j["res"]
        if j["model_patches"] or o["warned"]:
            ctx.nontrivial.add(json.dumps(rr, sort_keys=True))
    # pH sweeps with the real PROPKA
    pep = gen.pdb_text([gen.peptide(["ASP", "CYS", "HIS", "LYS", "TYR", "ARG", "GLU", "SER"])])
    pep2 = gen.pdb_text([gen.peptide(["LYS", "GLU", "HIS", "ASP", "CYS"]), gen.transform(gen.peptide(["CYS", "TYR", "GLU"], chain="B"), t=(0, 25, 0))])
    phs = [float(x) for x in range(0, 15)] if ctx.quick else [x / 2.0 for x in range(0, 29)]
    inputs = [("peptide8", pep), ("two-chains", pep2), ("1AJJ", open(os.path.join(DATA, "1AJJ.pdb")).read())]
    if not ctx.quick:
        inputs += [("cterm_hid", open(os.path.join(DATA, "cterm_hid.pdb")).read()), ("1BX8", open(os.path.join(DATA, "1BX8.pdb")).read())]
    sweep_ffs = ["PARSE", "AMBER", gen.FORCE_FIELDS[ctx.seed % 6]] if ctx.quick else gen.FORCE_FIELDS
    sjobs2 = [(n, t, ff, phs) for n, t in inputs for ff in sorted(set(sweep_ffs))]
    sweeps = core.pmap(_sweep_job, sjobs2, chunksize=1)
    for (n, _t, ff, _p), sw in zip(sjobs2, sweeps):
        ctx.evaluations += len(sw)
        ok = [s for s in sw if s["charge"] is not None]
        for s in sw:
            if s["charge"] is None:
                ctx.violation({"clause": "SweepRunSucceeds", "ff": ff.lower(), "input": n, "exc": s["exc"]},
                              f"PROPKA sweep {n} {ff} pH {s['ph']}: {s['exc']} {s['msg']}", {"input": n, "ff": ff, "ph": s["ph"]})
            elif s["missed"]:
                ctx.violation({"clause": "NoResidueDropped", "ff": ff.lower(), "input": n, "sweep": True},
                              f"PROPKA sweep {n} {ff} pH {s['ph']}: residues dropped because of titration: {s['missed']}",
                              {"input": n, "ff": ff, "ph": s["ph"]})
        if ff == "PARSE" and ok:
            hi, lo = ok[-1], ok[0]
            if hi["ph"] >= 13 and any("NEUTRAL-N" not in x for x in hi["nterm"] if not x.endswith("PRO")):
                ctx.violation({"clause": "TerminusTitrated", "terminus": "N", "source": "real-propka"},
                              f"PROPKA sweep {n} PARSE pH {hi['ph']}: N-terminal residues stay charged: {hi['nterm']}", {"input": n})
            if lo["ph"] <= 1 and any("NEUTRAL-C" not in x for x in lo["cterm"]):
                ctx.violation({"clause": "TerminusTitrated", "terminus": "C", "source": "real-propka"},
                              f"PROPKA sweep {n} PARSE pH {lo['ph']}: C-terminal residues stay charged: {lo['cterm']}", {"input": n})
        traces.append({"id": len(traces) + 1, "kind": "sweep", "res": jobs[0]["res"], "obs": {"patches": [], "nondef": [], "warned": [], "dropped": False},
                       "charges": [s["charge"] for s in ok], "phs": [s["ph"] for s in ok], "what": f"{n} {ff}"})
        ctx.nontrivial.add(("sweep", n, ff))
    tf = core.write_json(os.path.join(ctx.work, "tr.json"),
                         [{"id": t["id"], "kind": t["kind"], "res": t["res"], "charges": t["charges"],
                           "obs": {k: t["obs"][k] for k in ("patches", "nondef", "warned", "dropped")}} for t in traces])
    try:
        open(cfg, "w").write(cfg_text("FALSE", "Report", spec="TSpec"))
        mod2 = os.path.join(ctx.work, "MC_TitrationTraceGen.tla")
        open(mod2, "w").write("---- MODULE MC_TitrationTraceGen ----\n(* generated at run time by vlib/checks/c06.py *)\n"
                              "EXTENDS TitrationTrace\nGenSupported == {" +
                              ", ".join(f'<<"{a}", "{b}", "{c}">>' for a, b, c in supported) + "}\n====\n")
        r = core.run_tlc(mod2, cfg, ctx.work, workers=4, env={"TRACE_FILE": tf}, timeout=1200)
    finally:
        for m in (mod, os.path.join(ctx.work, "MC_TitrationTraceGen.tla")):
            if os.path.exists(m):
                os.unlink(m)
    core.need_ok(r, "TitrationTrace")
    ctx.add_tlc(r, "trace validation")
    got = {v[1]: v for v in r.printed if isinstance(v, list) and v and v[0] in ("T", "S")}
    if len(got) != len(traces):
        raise core.MachineryError(f"{len(got)} verdicts for {len(traces)} traces; {r.unparsed[:2]} {r.out[-600:]}")
    ctx.traces += len(traces)
    for t in traces:
        v = got[t["id"]]
        if t["kind"] == "sweep":
            for k in v[2]:
                ctx.violation({"clause": "ChargeNonIncreasing", "what": t["what"]},
                              f"PROPKA sweep {t['what']}: total charge rises from {t['charges'][k-1]/1e4} at pH {t['phs'][k-1]} "
                              f"to {t['charges'][k]/1e4} at pH {t['phs'][k]}", {"what": t["what"], "charges": t["charges"], "phs": t["phs"]})
            continue
        acc, bad = v[2], v[3]
        rr = t["res"]
        for b in bad:
            key = {"clause": b[0], "ff": rr["ff"], "group": b[1] or "(none)", "pos": rr["pos"]}
            if t.get("variant"):
                key["variant"] = t["variant"]
            ctx.violation(key, f"cell {rr} {t.get('variant', '')}: observed {t['obs']}", {"cell": rr, "variant": t.get("variant", ""), "observed": t["obs"]})
        if not acc and not bad:
            ctx.drift.append({"cell": rr, "observed_patches": t["obs"]["patches"]})
    c0 = [t for t in traces if t["kind"] == "cell" and t["obs"]["patches"]]
    if c0:
        ctx.sample({"cell": c0[len(c0) // 2]["res"], "observed": c0[len(c0) // 2]["obs"]})
    sw0 = [t for t in traces if t["kind"] == "sweep"]
    if sw0:
        ctx.sample({"sweep": sw0[0]["what"], "phs": sw0[0]["phs"], "charges_x1e4": sw0[0]["charges"]})
