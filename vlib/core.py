"""Shared core of the pdb2pqr model-based verification harness.

TLC is the judge: this module runs TLC on the specifications in /verif/spec, feeds it
observations recorded from the real code (IOEnv-passed JSON files), parses its verdict lines,
and writes evidence / replay files.  Nothing here knows about a particular property.
"""
import hashlib
import json
import os
import re
import shutil
import subprocess
import sys
import time

VERIF = os.path.dirname(os.path.dirname(os.path.abspath(__file__)))
SPEC = os.path.join(VERIF, "spec")
REPO = os.environ.get("VERIF_REPO", "/repo")
TLA_CP = "/opt/veriftools/tla/tla2tools.jar:/opt/veriftools/tla/CommunityModules-deps.jar"
NCPU = min(16, os.cpu_count() or 4)


class MachineryError(Exception):
    """Raised when the harness itself (not the property) fails: exit status 2."""


_LOGGING_OFF = False


def use_repo():
    """Make `import pdb2pqr` resolve to the tree under test (VERIF_REPO, default /repo)."""
    if sys.path[0] != REPO:
        sys.path.insert(0, REPO)
    import pdb2pqr  # noqa

    got = os.path.dirname(os.path.dirname(os.path.abspath(pdb2pqr.__file__)))
    if os.path.realpath(got) != os.path.realpath(REPO):
        raise MachineryError(f"pdb2pqr imported from {got}, expected {REPO}")
    global _LOGGING_OFF
    if not _LOGGING_OFF:
        import logging

        logging.getLogger().setLevel(logging.CRITICAL)
        logging.disable(logging.CRITICAL)
        _LOGGING_OFF = True
    return pdb2pqr


# --------------------------------------------------------------------------------------------
# TLC
# --------------------------------------------------------------------------------------------
class TLCResult:
    def __init__(self):
        self.ok = False  # finished without error
        self.generated = 0
        self.distinct = 0
        self.invariant = None  # violated invariant / property name
        self.error = None
        self.out = ""
        self.unparsed = []
        self.printed = []  # parsed PrintT values (python objects) in order
        self.coverage = {}  # action name -> (distinct, total)
        self.wall = 0.0
        self.depth = 0


_TLA_TOKEN = re.compile(r'\s*(<<|>>|\{|\}|\[|\]|,|\|->|"(?:[^"\\]|\\.)*"|-?\d+|TRUE|FALSE|[A-Za-z_][A-Za-z0-9_]*)')


def parse_tla_value(text):
    """Parse a printed TLA+ value (tuples, sets, records, strings, ints, booleans)."""
    toks = []
    pos = 0
    text = text.strip()
    while pos < len(text):
        m = _TLA_TOKEN.match(text, pos)
        if not m:
            raise ValueError(f"cannot tokenise TLA+ value at {text[pos:pos+40]!r}")
        toks.append(m.group(1))
        pos = m.end()
    idx = [0]

    def val():
        t = toks[idx[0]]
        idx[0] += 1
        if t == "<<":
            items = []
            while toks[idx[0]] != ">>":
                items.append(val())
                if toks[idx[0]] == ",":
                    idx[0] += 1
            idx[0] += 1
            return items
        if t == "{":
            items = []
            while toks[idx[0]] != "}":
                items.append(val())
                if toks[idx[0]] == ",":
                    idx[0] += 1
            idx[0] += 1
            return items
        if t == "[":
            rec = {}
            while toks[idx[0]] != "]":
                k = toks[idx[0]]
                idx[0] += 1
                if toks[idx[0]] != "|->":
                    raise ValueError("record expected")
                idx[0] += 1
                rec[k] = val()
                if toks[idx[0]] == ",":
                    idx[0] += 1
            idx[0] += 1
            return rec
        if t == "TRUE":
            return True
        if t == "FALSE":
            return False
        if t.startswith('"'):
            return _unescape(t)
        if re.fullmatch(r"-?\d+", t):
            return int(t)
        return t

    v = val()
    return v


def _unescape(t):
    body = t[1:-1]
    out = []
    i = 0
    while i < len(body):
        c = body[i]
        if c == "\\" and i + 1 < len(body):
            n = body[i + 1]
            out.append({"n": "\n", "t": "\t", "r": "\r", "f": "\f"}.get(n, n))
            i += 2
        else:
            out.append(c)
            i += 1
    return "".join(out)


def run_tlc(module, cfg, workdir, *, workers=None, env=None, simulate=None, depth=None,
            seed=None, timeout=3600, coverage=False, dfs=False, continue_=False,
            deadlock=False, heap="4g", extra=None):
    """Run TLC on spec/<module>.tla with spec/<cfg> (cfg may be an absolute path generated at
    run time).  Returns a TLCResult; raises MachineryError on parse/semantic errors of the spec."""
    t0 = time.time()
    os.makedirs(workdir, exist_ok=True)
    modpath = module if os.path.isabs(module) else os.path.join(SPEC, module + ".tla")
    module = os.path.basename(modpath)[:-4]
    meta = os.path.join(workdir, f"meta-{module}-{os.getpid()}-{int(t0*1000)%100000}")
    cfgpath = cfg if os.path.isabs(cfg) else os.path.join(SPEC, cfg)
    jopts = [f"-Xmx{heap}", "-Xss64m", "-XX:+UseParallelGC", f"-DTLA-Library={SPEC}"]
    if dfs:
        jopts.append("-Dtlc2.tool.queue.IStateQueue=StateDeque")
    cmd = ["java", *jopts, "-cp", TLA_CP, "tlc2.TLC", "-metadir", meta, "-noGenerateSpecTE",
           "-config", cfgpath, "-workers", str(workers or "auto")]
    if not deadlock:
        cmd.append("-deadlock")  # -deadlock disables deadlock checking
    if coverage:
        cmd += ["-coverage", "1"]
    if continue_:
        cmd.append("-continue")
    if simulate:
        cmd += ["-simulate", simulate]
    if depth:
        cmd += ["-depth", str(depth)]
    if seed is not None:
        cmd += ["-seed", str(seed)]
    if extra:
        cmd += list(extra)
    cmd.append(modpath)
    e = dict(os.environ)
    e.pop("JAVA_TOOL_OPTIONS", None)
    if env:
        e.update({k: str(v) for k, v in env.items()})
    for attempt in range(3):
        try:
            p = subprocess.run(cmd, cwd=SPEC, env=e, capture_output=True, text=True, timeout=timeout)
        except subprocess.TimeoutExpired as ex:
            shutil.rmtree(meta, ignore_errors=True)
            raise MachineryError(f"TLC timed out after {timeout}s on {module}/{cfg}") from ex
        # a JVM that never got as far as TLC's banner (killed, or could not start under heavy load) says nothing about the
        # specification: try again
        if "TLC2 Version" in p.stdout or attempt == 2:
            break
        shutil.rmtree(meta, ignore_errors=True)
        time.sleep(5 * (attempt + 1))
    shutil.rmtree(meta, ignore_errors=True)
    r = TLCResult()
    r.out = p.stdout + p.stderr
    r.wall = time.time() - t0
    for m in re.finditer(r"(\d+) states generated, (\d+) distinct states found", r.out):
        r.generated, r.distinct = int(m.group(1)), int(m.group(2))
    m = re.search(r"The depth of the complete state graph search is (\d+)", r.out)
    if m:
        r.depth = int(m.group(1))
    m = re.search(r"Invariant (\S+) is violated", r.out)
    if m:
        r.invariant = m.group(1)
    m = re.search(r"Action property (\S+) is violated", r.out) or re.search(
        r"Temporal properties were violated", r.out)
    if m and not r.invariant:
        r.invariant = m.group(1) if m.groups() else "temporal"
    if re.search(r"Semantic errors|Parsing or semantic analysis failed|\*\*\* Errors:|Unknown operator|"
                 r"Lexical error|Was expecting|Could not parse|TLC threw an unexpected exception|"
                 r"java\.lang\.\w*Error|Attempted to|The exception was a|Error: Evaluating|"
                 r"is not enumerable|Error: In evaluation|Error: The|ConfigFileException|"
                 r"Error: TLC", r.out) and not r.invariant:
        r.error = _first_error(r.out)
    if "Error:" in r.out and not r.invariant and not r.error:
        r.error = _first_error(r.out)
    r.ok = (p.returncode == 0 and r.invariant is None and r.error is None)
    if simulate and r.invariant is None and r.error is None:
        r.ok = True  # simulation mode returns non-zero on interruption by num= limit in some builds
    # PrintT values: output lines that are not TLC chatter and parse as a TLA+ value; TLC wraps
    # long values over several lines, so lines are accumulated until the brackets balance
    lines = p.stdout.splitlines()
    i = 0
    while i < len(lines):
        s = lines[i].strip()
        i += 1
        if not (s.startswith("<<") or s.startswith('"@')):
            continue
        buf = s
        if s.startswith("<<"):
            d = _depth(s)
            parts = [s]
            while d > 0 and i < len(lines) and len(parts) < 200000:
                nxt = lines[i].strip()
                parts.append(nxt)
                d += _depth(nxt)
                i += 1
            buf = " ".join(parts)
        try:
            r.printed.append(parse_tla_value(buf))
        except Exception:
            r.unparsed.append(buf[:300])
    if coverage:
        for m in re.finditer(r"^<([\w!]+) line \d+, col \d+ to line \d+, col \d+ of module (\w+)(?: \([\d ]+\))?>: (\d+):(\d+)",
                             r.out, re.M):
            name = m.group(1).split("!")[-1]
            d, t = int(m.group(3)), int(m.group(4))
            od, ot = r.coverage.get(name, (0, 0))
            r.coverage[name] = (od + d, ot + t)
    return r


_BR = re.compile(r'"(?:[^"\\]|\\.)*"|<<|>>|[\[\]{}]')


def _depth(text):
    d = 0
    for m in _BR.finditer(text):
        t = m.group(0)
        if t in ("<<", "[", "{"):
            d += 1
        elif t in (">>", "]", "}"):
            d -= 1
    return d


def _first_error(out):
    lines = out.splitlines()
    for i, ln in enumerate(lines):
        if "rror" in ln:
            return "\n".join(lines[i:i + 12])
    return out[-1500:]


def need_ok(r, what):
    if r.error or (not r.ok and not r.invariant):
        raise MachineryError(f"TLC failed on {what}:\n{r.error or r.out[-3000:]}")
    return r


# --------------------------------------------------------------------------------------------
# check context: evidence, violations, known findings
# --------------------------------------------------------------------------------------------
class Ctx:
    def __init__(self, pid, tier, seed, level):
        self.pid = pid
        self.tier = tier
        self.seed = seed
        self.level = level
        self.t0 = time.time()
        self.work = os.path.join(VERIF, ".work", f"{pid}-{os.getpid()}")
        os.makedirs(self.work, exist_ok=True)
        self.states = 0
        self.transitions = 0
        self.traces = 0
        self.evaluations = 0
        self.nontrivial = set()
        self.rule = ""
        self.samples = []
        self.assumptions = []
        self.trusted = []
        self.extra = {}
        self.violations = []  # dicts: key, detail, replay
        self.known_seen = {}
        self.drift = []
        self.exhaustive = False
        self.tlc_runs = []
        self.known = [k for k in load_known() if k.get("property") == pid]

    @property
    def quick(self):
        return self.tier == "quick"

    def add_tlc(self, r, label):
        self.states += r.distinct
        self.transitions += r.generated
        self.tlc_runs.append({"run": label, "distinct": r.distinct, "generated": r.generated,
                              "depth": r.depth, "wall_s": round(r.wall, 2),
                              "coverage": {k: list(v) for k, v in sorted(r.coverage.items())} or None})

    def sample(self, s, cap=6):
        if len(self.samples) < cap:
            self.samples.append(s)

    def violation(self, key, detail, replay=None):
        """Report one violation.  key: small dict identifying the structural cause (matched
        against known_findings.json); detail: human text; replay: JSON-able case data."""
        for k in self.known:
            if k.get("kind") == "known" and all(_match(key.get(f), v) for f, v in k["match"].items()):
                ent = self.known_seen.setdefault(k["id"], {"n": 0, "desc": k["description"], "first": detail})
                ent["n"] += 1
                return False
        self.violations.append({"key": key, "detail": detail, "replay": replay})
        return True

    def finish(self):
        wall = time.time() - self.t0
        shutil.rmtree(self.work, ignore_errors=True)
        cov = {
            "states": self.states, "transitions": self.transitions,
            "traces_validated_against_impl": self.traces,
            "evaluations": self.evaluations, "distinct_nontrivial": len(self.nontrivial),
            "rule": self.rule, "samples": self.samples[:8], "exhaustive": self.exhaustive,
            "trusted_base": self.trusted, "tlc_runs": self.tlc_runs,
            "known_findings_seen": {k: v["n"] for k, v in self.known_seen.items()},
            "drift": self.drift[:20],
        }
        cov.update(self.extra)
        # distinct violations by key
        distinct = {}
        for v in self.violations:
            distinct.setdefault(json.dumps(v["key"], sort_keys=True), v)
        ev = {"property_id": self.pid, "tier": self.tier, "seed": self.seed, "level": self.level,
              "coverage": cov, "assumptions": self.assumptions, "wall_s": round(wall, 2),
              "violations": len(distinct), "repo": REPO}
        os.makedirs(os.path.join(VERIF, "evidence"), exist_ok=True)
        evpath = os.path.join(VERIF, "evidence", f"{self.pid}.json")
        if os.environ.get("VERIF_EVIDENCE_DIR"):
            os.makedirs(os.environ["VERIF_EVIDENCE_DIR"], exist_ok=True)
            evpath = os.path.join(os.environ["VERIF_EVIDENCE_DIR"], f"{self.pid}.json")
        with open(evpath, "w") as f:
            json.dump(ev, f, indent=1, default=str)
        for kid, v in self.known_seen.items():
            print(f"KNOWN-FINDING: property={self.pid} {kid}: {v['desc']} (seen {v['n']}x; e.g. {v['first'][:160]})")
        rc = 0
        for i, (ks, v) in enumerate(distinct.items()):
            if i >= int(os.environ.get("VERIF_MAXVIOL", "20")):
                break
            rdir = os.path.join(VERIF, "replays", self.pid)
            os.makedirs(rdir, exist_ok=True)
            h = hashlib.sha1(ks.encode()).hexdigest()[:12]
            rp = os.path.join(rdir, h + ".json")
            with open(rp, "w") as f:
                json.dump({"property": self.pid, "key": v["key"], "detail": v["detail"],
                           "case": v["replay"], "tier": self.tier, "seed": self.seed}, f, indent=1, default=str)
            print(f"VIOLATION property={self.pid} replay={rp}")
            print(f"  key={ks} :: {v['detail'][:400]}")
            rc = 1
        print(f"[{self.pid}] tier={self.tier} seed={self.seed} states={self.states} "
              f"traces={self.traces} evaluations={self.evaluations} nontrivial={len(self.nontrivial)} "
              f"violations={len(distinct)} known={len(self.known_seen)} wall={wall:.1f}s")
        return rc


def _match(val, pat):
    if isinstance(pat, list):
        return val in pat
    if isinstance(pat, str) and pat.startswith("re:"):
        return val is not None and re.fullmatch(pat[3:], str(val)) is not None
    return val == pat


def load_known():
    p = os.path.join(VERIF, "known_findings.json")
    if not os.path.exists(p):
        return []
    return json.load(open(p))["findings"]


def _no_nulls(o):
    """TLC's Json module cannot read null: an absent value becomes the empty sequence (which equals no logged value,
    so the trace specs see a mismatch instead of TLC failing)"""
    if o is None:
        return []
    if isinstance(o, dict):
        return {k: _no_nulls(v) for k, v in o.items()}
    if isinstance(o, (list, tuple)):
        return [_no_nulls(v) for v in o]
    return o


def write_json(path, obj):
    with open(path, "w") as f:
        json.dump(_no_nulls(obj), f, separators=(",", ":"))
    return path


def pmap(fn, items, procs=None, chunksize=None):
    """Parallel map over worker processes (fork), deterministic order."""
    import multiprocessing as mp

    items = list(items)
    procs = procs or NCPU
    if len(items) < 4 or procs == 1:
        return [fn(x) for x in items]
    ctx = mp.get_context("fork")
    with ctx.Pool(procs) as pool:
        return pool.map(fn, items, chunksize or max(1, len(items) // (procs * 8)))
