"""Run-time tracer for pdb2pqr: wraps attributes of the imported modules (no source hooks).

Events are dicts appended to Tracer.events.  Which groups of wrappers are installed is chosen by
the caller ("atoms", "coords", "cells", "stages", ...).  A wrapper whose target is missing is
recorded in Tracer.unobservable and skipped.  Everything is undone by uninstall().
"""
import sys


class Tracer:
    def __init__(self):
        self.events = []
        self.ids = {}        # id(atom) -> small int
        self.atoms = {}      # small int -> atom object (keeps atoms alive so ids stay unique)
        self.dirty = {}      # atom id -> frame name that last assigned a coordinate
        self.unobservable = []
        self._undo = []
        self.cells_ids = {}
        self.stage = ""
        self.on = True

    # ------------------------------------------------------------------ helpers
    def aid(self, atom):
        k = id(atom)
        n = self.ids.get(k)
        if n is None:
            n = len(self.ids) + 1
            self.ids[k] = n
            self.atoms[n] = atom
        return n

    qmode = "round"

    def q(self, v):
        """coordinate -> integer milli-Angstrom.  "round": nearest.  "cell": truncation toward zero that
        keeps int(v) and the sign test v < 0 exact (what the cell key arithmetic depends on)."""
        if self.qmode == "round":
            return int(round(v * 1000))
        iv = int(v)
        fr = int((v - iv) * 1000)
        fr = max(-999, min(999, fr))
        m = iv * 1000 + fr
        if m == 0 and v < 0:
            m = -1
        return m

    def qpos(self, atom):
        try:
            return [self.q(atom.x), self.q(atom.y), self.q(atom.z)]
        except Exception:
            return None

    def frame_name(self, depth=2):
        """innermost pdb2pqr frame (Class.method or function) above the wrapper"""
        f = sys._getframe(depth)
        while f is not None:
            mod = f.f_globals.get("__name__", "")
            if mod.startswith("pdb2pqr"):
                name = f.f_code.co_name
                slf = f.f_locals.get("self")
                if slf is not None:
                    return f"{type(slf).__name__}.{name}"
                return f"{mod.split('.')[-1]}.{name}"
            f = f.f_back
        return "?"

    def emit(self, **ev):
        if self.on:
            self.events.append(ev)

    def flush_moves(self):
        if self.dirty:
            for a, fr in self.dirty.items():
                self.emit(e="set", a=a, p=self.qpos(self.atoms[a]), fr=fr)
            self.dirty = {}

    def _patch(self, obj, name, make):
        try:
            orig = obj.__dict__[name] if isinstance(obj, type) else getattr(obj, name)
        except (KeyError, AttributeError):
            self.unobservable.append(f"{getattr(obj, '__name__', obj)}.{name}")
            return
        new = make(orig)
        setattr(obj, name, new)
        self._undo.append((obj, name, orig))

    def uninstall(self):
        for obj, name, orig in reversed(self._undo):
            if orig is _MISSING:
                try:
                    delattr(obj, name)
                except AttributeError:
                    pass
            else:
                setattr(obj, name, orig)
        self._undo = []

    # ------------------------------------------------------------------ wrapper groups
    def install(self, groups):
        import pdb2pqr.structures as st

        if "coords" in groups:
            tr = self

            def __setattr__(atom, k, v):
                object.__setattr__(atom, k, v)
                if k in ("x", "y", "z") and tr.on:
                    n = tr.ids.get(id(atom))
                    if n is not None:
                        tr.dirty[n] = tr.frame_name(2)

            st.Atom.__setattr__ = __setattr__
            self._undo.append((st.Atom, "__setattr__", _MISSING))
        if "atoms" in groups:
            self._install_atoms()
        if "cells" in groups:
            self._install_cells()

    def _install_atoms(self):
        import pdb2pqr.aa as aa
        import pdb2pqr.na as na
        import pdb2pqr.residue as residue
        import pdb2pqr.ligand as lig

        tr = self

        def mk_add(orig):
            def add_atom(res, atom):
                r = orig(res, atom)
                n = tr.aid(atom)
                tr.emit(e="new", a=n, p=tr.qpos(atom), name=atom.name, res=_rid(res), fr=tr.frame_name(2))
                return r
            return add_atom

        def mk_remove(orig):
            def remove_atom(res, atomname):
                atom = res.map.get(atomname)
                r = orig(res, atomname)
                if atom is not None:
                    tr.emit(e="del", a=tr.aid(atom), name=atomname, res=_rid(res), fr=tr.frame_name(2))
                return r
            return remove_atom

        def mk_rename(orig):
            def rename_atom(res, oldname, newname):
                atom = res.map.get(oldname)
                r = orig(res, oldname, newname)
                if atom is not None:
                    tr.emit(e="rename", a=tr.aid(atom), old=oldname, name=newname, res=_rid(res),
                            fr=tr.frame_name(2))
                return r
            return rename_atom

        for klass in (residue.Residue, aa.Amino, aa.WAT, aa.LIG, na.Nucleic):
            if "add_atom" in klass.__dict__:
                self._patch(klass, "add_atom", mk_add)
        self._patch(residue.Residue, "remove_atom", mk_remove)
        self._patch(residue.Residue, "rename_atom", mk_rename)

    def _install_cells(self):
        import pdb2pqr.cells as cells

        tr = self

        def cid(c):
            k = id(c)
            if k not in tr.cells_ids:
                tr.cells_ids[k] = (len(tr.cells_ids) + 1, c)
                tr.emit(e="cells", c=tr.cells_ids[k][0], size=c.cellsize)
            return tr.cells_ids[k][0]

        def mk_add(orig):
            def add_cell(c, atom):
                n = tr.aid(atom)
                tr.flush_moves()
                r = orig(c, atom)
                tr.emit(e="add", c=cid(c), a=n, key=list(atom.cell) if atom.cell is not None else None,
                        p=tr.qpos(atom), fr=tr.frame_name(2))
                return r
            return add_cell

        def mk_rem(orig):
            def remove_cell(c, atom):
                n = tr.aid(atom)
                tr.flush_moves()
                r = orig(c, atom)
                tr.emit(e="rem", c=cid(c), a=n, fr=tr.frame_name(2))
                return r
            return remove_cell

        def mk_near(orig):
            def get_near_cells(c, atom):
                n = tr.aid(atom)
                tr.flush_moves()
                r = orig(c, atom)
                tr.emit(e="query", c=cid(c), a=n, res=[tr.aid(b) for b in r], fr=tr.frame_name(2))
                return r
            return get_near_cells

        def mk_assign(orig):
            def assign_cells(c, biomolecule):
                tr.flush_moves()
                tr.emit(e="assign", c=cid(c))
                return orig(c, biomolecule)
            return assign_cells

        self._patch(cells.Cells, "add_cell", mk_add)
        self._patch(cells.Cells, "remove_cell", mk_rem)
        self._patch(cells.Cells, "get_near_cells", mk_near)
        self._patch(cells.Cells, "assign_cells", mk_assign)


_MISSING = object()


def _rid(res):
    return f"{getattr(res, 'name', '?')} {getattr(res, 'chain_id', '')} {getattr(res, 'res_seq', '')}{getattr(res, 'ins_code', '')}"
