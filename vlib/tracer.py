"""Run-time tracer for pdb2pqr: wraps attributes of the imported modules (no source hooks).

Events are dicts appended to Tracer.events.  Which groups of wrappers are installed is chosen by
the caller ("atoms", "coords", "cells", "stages", ...).  A wrapper whose target is missing is
recorded in Tracer.unobservable and skipped.  Everything is undone by uninstall().
"""
import sys


class Tracer:
    def __init__(self):
        self.events = []
        self.ids = {}        # id(atom) -> small int
        self.atoms = {}      # small int -> atom object (keeps atoms alive so ids stay unique)
        self.dirty = {}      # atom id -> frame name that last assigned a coordinate
        self.unobservable = []
        self._undo = []
        self.cells_ids = {}
        self.stage = ""
        self.on = True

    # ------------------------------------------------------------------ helpers
    def aid(self, atom):
        k = id(atom)
        n = self.ids.get(k)
        if n is None:
            n = len(self.ids) + 1
            self.ids[k] = n
            self.atoms[n] = atom
        return n

    qmode = "round"

    def q(self, v):
        """coordinate -> integer milli-Angstrom.  "round": nearest.  "cell": truncation toward zero that
        keeps int(v) and the sign test v < 0 exact (what the cell key arithmetic depends on)."""
        if self.qmode == "round":
            return int(round(v * 1000))
        iv = int(v)
        fr = int((v - iv) * 1000)
        fr = max(-999, min(999, fr))
        m = iv * 1000 + fr
        if m == 0 and v < 0:
            m = -1
        return m

    def qpos(self, atom):
        try:
            return [self.q(atom.x), self.q(atom.y), self.q(atom.z)]
        except Exception:
            return None

    def frame_names(self, depth=2, n=3):
        """the n innermost pdb2pqr frames above the wrapper"""
        out = []
        f = sys._getframe(depth)
        while f is not None and len(out) < n:
            mod = f.f_globals.get("__name__", "")
            if mod.startswith("pdb2pqr"):
                slf = f.f_locals.get("self")
                out.append(f"{type(slf).__name__}.{f.f_code.co_name}" if slf is not None else f"{mod.split('.')[-1]}.{f.f_code.co_name}")
            f = f.f_back
        return out

    def frame_stack(self, depth=2, n=3):
        """the n innermost pdb2pqr frames above the wrapper as one string "inner < caller < ..." """
        return " < ".join(self.frame_names(depth + 1, n))

    def frame_name(self, depth=2):
        """innermost pdb2pqr frame (Class.method or function) above the wrapper"""
        f = sys._getframe(depth)
        while f is not None:
            mod = f.f_globals.get("__name__", "")
            if mod.startswith("pdb2pqr"):
                name = f.f_code.co_name
                slf = f.f_locals.get("self")
                if slf is not None:
                    return f"{type(slf).__name__}.{name}"
                return f"{mod.split('.')[-1]}.{name}"
            f = f.f_back
        return "?"

    cur_stage = ""

    def emit(self, **ev):
        if self.on:
            if ev.get("e") in ("new", "del", "rename"):
                ev["stage"] = self.cur_stage
            self.events.append(ev)

    def flush_moves(self):
        if self.dirty:
            for a, fr in self.dirty.items():
                self.emit(e="set", a=a, p=self.qpos(self.atoms[a]), fr=fr)
            self.dirty = {}

    def _patch(self, obj, name, make):
        try:
            orig = obj.__dict__[name] if isinstance(obj, type) else getattr(obj, name)
        except (KeyError, AttributeError):
            self.unobservable.append(f"{getattr(obj, '__name__', obj)}.{name}")
            return
        new = make(orig)
        setattr(obj, name, new)
        self._undo.append((obj, name, orig))

    def uninstall(self):
        for u in getattr(self, "_extra_undo", []):
            u()
        self._extra_undo = []
        for obj, name, orig in reversed(self._undo):
            if orig is _MISSING:
                try:
                    delattr(obj, name)
                except AttributeError:
                    pass
            else:
                setattr(obj, name, orig)
        self._undo = []

    # ------------------------------------------------------------------ wrapper groups
    def install(self, groups):
        import pdb2pqr.structures as st

        if "coords" in groups:
            tr = self

            def __setattr__(atom, k, v):
                object.__setattr__(atom, k, v)
                if k in ("x", "y", "z") and tr.on:
                    n = tr.ids.get(id(atom))
                    if n is not None:
                        tr.dirty[n] = tr.frame_stack(2)

            st.Atom.__setattr__ = __setattr__
            self._undo.append((st.Atom, "__setattr__", _MISSING))
        if "atoms" in groups:
            self._install_atoms()
        if "cells" in groups:
            self._install_cells()
        if "stages" in groups:
            self._install_stages()
        if "log" in groups:
            self._install_log()
        if "torsion" in groups:
            self._install_torsion()
        if "placement" in groups:
            self._install_placement()
        if "debump" in groups:
            self._install_debump()
        if "hbsched" in groups:
            self._install_hbsched()
        if "patch" in groups:
            self._install_patch()

    def _install_atoms(self):
        import pdb2pqr.aa as aa
        import pdb2pqr.na as na
        import pdb2pqr.residue as residue
        import pdb2pqr.ligand as lig

        tr = self

        def mk_add(orig):
            def add_atom(res, atom, *xa, **xk):
                r = orig(res, atom, *xa, **xk)
                n = tr.aid(atom)
                ev = dict(e="new", a=n, p=tr.qpos(atom), name=atom.name, res=_rid(res), fr=tr.frame_name(2),
                          rc=type(res).__name__, hv=not _is_h(atom), rec=getattr(atom, "type", ""))
                if getattr(tr, "placement", False):
                    ev["frs"] = tr.frame_names(2, 7)
                    ev["fit"] = getattr(tr, "last_fit", None)
                    tr.last_fit = None
                    if ev["fit"]:
                        # which atoms' coordinates were handed to the superposition as the actual positions
                        acts = []
                        for cc in ev["fit"]["ref"]:
                            nm = "?"
                            for b in res.atoms:
                                if b is not atom and (b.x, b.y, b.z) == cc:
                                    nm = b.name
                                    break
                            else:
                                pn, pc = getattr(res, "peptide_n", None), getattr(res, "peptide_c", None)
                                if pn is not None and (pn.x, pn.y, pn.z) == cc:
                                    nm = "N+1"
                                elif pc is not None and (pc.x, pc.y, pc.z) == cc:
                                    nm = "C-1"
                            acts.append(nm)
                        ev["fit"]["acts"] = acts
                    ev["xyz"] = (atom.x, atom.y, atom.z)
                tr.emit(**ev)
                return r
            return add_atom

        def mk_remove(orig):
            def remove_atom(res, atomname, *xa, **xk):
                atom = res.map.get(atomname)
                r = orig(res, atomname, *xa, **xk)
                if atom is not None:
                    tr.emit(e="del", a=tr.aid(atom), name=atomname, res=_rid(res), fr=tr.frame_name(2), frs=tr.frame_stack(2))
                return r
            return remove_atom

        def mk_rename(orig):
            def rename_atom(res, oldname, newname, *xa, **xk):
                atom = res.map.get(oldname)
                r = orig(res, oldname, newname, *xa, **xk)
                if atom is not None:
                    tr.emit(e="rename", a=tr.aid(atom), old=oldname, name=newname, res=_rid(res),
                            fr=tr.frame_name(2))
                return r
            return rename_atom

        for klass in (residue.Residue, aa.Amino, aa.WAT, aa.LIG, na.Nucleic):
            if "add_atom" in klass.__dict__:
                self._patch(klass, "add_atom", mk_add)
        self._patch(residue.Residue, "remove_atom", mk_remove)
        self._patch(residue.Residue, "rename_atom", mk_rename)

    def _install_cells(self):
        import pdb2pqr.cells as cells

        tr = self

        def cid(c):
            k = id(c)
            if k not in tr.cells_ids:
                tr.cells_ids[k] = (len(tr.cells_ids) + 1, c)
                tr.emit(e="cells", c=tr.cells_ids[k][0], size=c.cellsize)
            return tr.cells_ids[k][0]

        def mk_add(orig):
            def add_cell(c, atom, *xa, **xk):
                n = tr.aid(atom)
                tr.flush_moves()
                r = orig(c, atom, *xa, **xk)
                tr.emit(e="add", c=cid(c), a=n, key=list(atom.cell) if atom.cell is not None else None,
                        p=tr.qpos(atom), fr=tr.frame_name(2))
                return r
            return add_cell

        def mk_rem(orig):
            def remove_cell(c, atom, *xa, **xk):
                n = tr.aid(atom)
                tr.flush_moves()
                r = orig(c, atom, *xa, **xk)
                tr.emit(e="rem", c=cid(c), a=n, fr=tr.frame_name(2), frs=tr.frame_stack(2))
                return r
            return remove_cell

        def mk_near(orig):
            def get_near_cells(c, atom, *xa, **xk):
                n = tr.aid(atom)
                tr.flush_moves()
                r = orig(c, atom, *xa, **xk)
                tr.emit(e="query", c=cid(c), a=n, res=[tr.aid(b) for b in r], fr=tr.frame_name(2))
                return r
            return get_near_cells

        def mk_assign(orig):
            def assign_cells(c, biomolecule, *xa, **xk):
                tr.flush_moves()
                tr.emit(e="assign", c=cid(c))
                return orig(c, biomolecule, *xa, **xk)
            return assign_cells

        self._patch(cells.Cells, "add_cell", mk_add)
        self._patch(cells.Cells, "remove_cell", mk_rem)
        self._patch(cells.Cells, "get_near_cells", mk_near)
        self._patch(cells.Cells, "assign_cells", mk_assign)

        # ---- the use of the queries in hydrogen-bond detection: the potential bonds the optimiser records for each
        # donor / acceptor atom of its groups, against the partners a brute-force search over the whole structure gives
        # (same eligibility conditions, distance < 4.3 A).  One "detect" event per group atom is placed where the detection
        # starts (the state the queries see); its "got" list is filled in as the PotentialBond objects are created.
        import pdb2pqr.hydrogens as hyd
        import pdb2pqr.hydrogens.structures as hst

        tr._detect = None

        def mk_pb(orig):
            def __init__(pb, atom1, atom2, *xa, **xk):
                if tr._detect is not None:
                    ev = tr._detect.get(id(atom1))
                    if ev is not None:
                        ev["got"].append(tr.aid(atom2))
                return orig(pb, atom1, atom2, *xa, **xk)
            return __init__

        def mk_opt(orig):
            def optimize_hydrogens(hr, *xa, **xk):
                try:
                    tr.flush_moves()
                    tr._detect = tr._detection_wants(hr, cid)
                except Exception as e:          # the audit is best effort: a failure here is reported, never raised
                    tr._detect = None
                    tr.emit(e="detect-error", msg=f"{type(e).__name__}: {e}"[:200])
                try:
                    return orig(hr, *xa, **xk)
                finally:
                    tr._detect = None
            return optimize_hydrogens

        self._patch(hst.PotentialBond, "__init__", mk_pb)
        self._patch(hyd.HydrogenRoutines, "optimize_hydrogens", mk_opt)

    def _detection_wants(self, hr, cid):
        import numpy as np

        cells = hr.debumper.cells
        c = cid(cells)
        univ = [a for res in hr.debumper.biomolecule.residues for a in res.atoms]
        if not univ or not hr.optlist:
            return {}
        xyz = np.array([[a.x, a.y, a.z] for a in univ], dtype=float)
        don = np.array([bool(a.hdonor) for a in univ])
        acc = np.array([bool(a.hacceptor) for a in univ])
        resid = np.array([id(a.residue) for a in univ])
        out = {}
        for obj in hr.optlist:
            for atom in obj.atomlist:
                if id(atom) in out:
                    continue
                d = np.sqrt(((xyz - np.array([atom.x, atom.y, atom.z])) ** 2).sum(axis=1))
                ok = (d < 4.3 - 1e-6) & (resid != id(atom.residue)) & (don | acc)
                if atom.hdonor and not atom.hacceptor:
                    ok &= acc
                if atom.hacceptor and not atom.hdonor:
                    ok &= don
                want = [self.aid(univ[i]) for i in np.nonzero(ok)[0]]
                ev = {"e": "detect", "c": c, "a": self.aid(atom), "want": want, "got": []}
                self.events.append(ev)
                out[id(atom)] = ev
        return out


    @staticmethod
    def peptide_neighbours(bio):
        """independent of the peptide_c / peptide_n pointers: residue -> [C of the previous residue, N of the next residue,
        linked to previous, linked to next].  Consecutive amino-acid residues of one chain are linked unless their C and N are
        both there and further apart than 1.7 A (a missing atom is no evidence of a chain break)"""
        import pdb2pqr.aa as aa
        out = {}
        for chain in bio.chains:
            prev = None
            for res in chain.residues:
                if isinstance(res, aa.Amino) and isinstance(prev, aa.Amino):
                    c, n = prev.map.get("C"), res.map.get("N")
                    broken = c is not None and n is not None and \
                        (n.x - c.x) ** 2 + (n.y - c.y) ** 2 + (n.z - c.z) ** 2 > 1.7 ** 2
                    if not broken:
                        e1 = out.setdefault(id(res), [None, None, False, False])
                        e2 = out.setdefault(id(prev), [None, None, False, False])
                        e1[0], e1[2] = c, True
                        e2[1], e2[3] = n, True
                prev = res
        return out

    def _install_placement(self):
        """remember the arguments of the last quatfit.find_coordinates call (consumed by the next atom creation)"""
        import pdb2pqr.quatfit as quatfit

        tr = self
        tr.placement = True
        tr.last_fit = None

        def mk(orig):
            def find_coordinates(numpoints, refcoords, defcoords, defatomcoords, *xa, **xk):
                r = orig(numpoints, refcoords, defcoords, defatomcoords, *xa, **xk)
                try:
                    tr.last_fit = {"n": int(numpoints), "def": [tuple(float(v) for v in c) for c in defcoords][:4],
                                   "ref": [tuple(float(v) for v in c) for c in refcoords][:4]}
                except Exception:
                    tr.last_fit = {"n": -1, "def": [], "ref": []}
                return r
            return find_coordinates
        self._patch(quatfit, "find_coordinates", mk)
        import pdb2pqr.biomolecule as bm

        tr.addh_snapshots = []

        def mk_addh(orig):
            def add_hydrogens(bio, *xa, **xk):
                try:
                    import pdb2pqr.aa as aa
                    import pdb2pqr.na as na
                    pn = tr.peptide_neighbours(bio)
                    for res in bio.residues:
                        if not isinstance(res, (aa.Amino, na.Nucleic)):
                            continue
                        ref = res.reference
                        tr.addh_snapshots.append({
                            "geo_cminus": pn.get(id(res), [None, None, False, False])[2],
                            "geo_nplus": pn.get(id(res), [None, None, False, False])[3],
                            "res": _rid(res), "order": list(ref.map), "bonds": {n: list(ref.map[n].bonds) for n in ref.map},
                            "present": [a.name for a in res.atoms], "nplus": getattr(res, "peptide_n", None) is not None,
                            "cminus": getattr(res, "peptide_c", None) is not None, "amino": hasattr(res, "rebuild_tetrahedral"),
                            "skip": ["HG"] if (isinstance(res, aa.CYS) and res.ss_bonded) else [],
                            "refcoords": {n: (ref.map[n].x, ref.map[n].y, ref.map[n].z) for n in ref.map}})
                except Exception as e:      # observation only
                    tr.unobservable.append(f"add_hydrogens snapshot: {type(e).__name__}")
                return orig(bio, *xa, **xk)
            return add_hydrogens
        self._patch(bm.Biomolecule, "add_hydrogens", mk_addh)
        tr.repair_snapshots = []

        def mk_repair(orig):
            def repair_heavy(bio, *xa, **xk):
                try:
                    import pdb2pqr.aa as aa
                    import pdb2pqr.na as na
                    pn = tr.peptide_neighbours(bio)
                    for res in bio.residues:
                        if not isinstance(res, (aa.Amino, na.Nucleic)) or not res.missing:
                            continue
                        ref = res.reference
                        tr.repair_snapshots.append({
                            "geo_cminus": pn.get(id(res), [None, None, False, False])[2],
                            "geo_nplus": pn.get(id(res), [None, None, False, False])[3],
                            "res": _rid(res), "order": list(ref.map), "bonds": {n: list(ref.map[n].bonds) for n in ref.map},
                            "present": [a.name for a in res.atoms if ref.has_atom(a.name)], "missing": list(res.missing),
                            "nplus": getattr(res, "peptide_n", None) is not None,
                            "cminus": getattr(res, "peptide_c", None) is not None, "amino": hasattr(res, "rebuild_tetrahedral"),
                            "skip": [], "refcoords": {n: (ref.map[n].x, ref.map[n].y, ref.map[n].z) for n in ref.map}})
                except Exception as e:      # observation only
                    tr.unobservable.append(f"repair_heavy snapshot: {type(e).__name__}")
                return orig(bio, *xa, **xk)
            return repair_heavy
        self._patch(bm.Biomolecule, "repair_heavy", mk_repair)

    def _install_torsion(self):
        """before/after coordinates of the residue for every Debump.set_dihedral_angle / Residue.rotate_tetrahedral"""
        import pdb2pqr.debump as debump
        import pdb2pqr.residue as presidue

        tr = self

        def snap(res):
            return {a.name: (a.x, a.y, a.z) for a in res.atoms}

        def bonds_of(res):
            names = set(a.name for a in res.atoms)
            out = set()
            for a in res.atoms:
                for b in a.bonds:
                    if getattr(b, "residue", None) is res and b.name in names and b.name != a.name:
                        out.add(tuple(sorted((a.name, b.name))))
            return sorted(out)

        def mk_dih(orig):
            def set_dihedral_angle(deb, residue, anglenum, angle, *extra, **kw):
                before = snap(residue)
                try:
                    names = residue.reference.dihedrals[anglenum].split()
                except Exception:
                    names = []
                r = orig(deb, residue, anglenum, angle, *extra, **kw)
                tr.emit(e="turn", routine="set_dihedral_angle", res=_rid(residue), dih=names, want=angle, before=before,
                        after=snap(residue), bonds=bonds_of(residue), backbone=[a.name for a in residue.atoms if getattr(a, "is_backbone", False)],
                        nterm=bool(getattr(residue, "is_n_term", 0)), cterm=bool(getattr(residue, "is_c_term", 0)),
                        stage=tr.cur_stage, fr=tr.frame_name(2), anglenum=anglenum)
                return r
            return set_dihedral_angle

        def mk_tet(orig):
            f = orig.__func__ if hasattr(orig, "__func__") else orig

            def rotate_tetrahedral(cls, atom1, atom2, angle, *extra, **kw):
                res = getattr(atom2, "residue", None)
                before = snap(res) if res is not None else {}
                r = f(cls, atom1, atom2, angle, *extra, **kw)
                if res is not None:
                    tr.emit(e="turn", routine="rotate_tetrahedral", res=_rid(res), dih=["", atom1.name, atom2.name, ""], want=angle,
                            before=before, after=snap(res), bonds=bonds_of(res),
                            backbone=[a.name for a in res.atoms if getattr(a, "is_backbone", False)],
                            nterm=bool(getattr(res, "is_n_term", 0)), cterm=bool(getattr(res, "is_c_term", 0)), stage=tr.cur_stage,
                            fr=tr.frame_name(2), anglenum=-1)
                return r
            return classmethod(rotate_tetrahedral)
        self._patch(debump.Debump, "set_dihedral_angle", mk_dih)
        self._patch(presidue.Residue, "rotate_tetrahedral", mk_tet)

    def _install_debump(self):
        """the search of Debump.debump_residue: pick / score / set / conflicts / return, one list per call"""
        import pdb2pqr.debump as debump
        import pdb2pqr.residue as presidue

        tr = self
        tr.debump_calls = []
        cur = []          # stack of open calls

        def q6(v):
            try:
                v = float(v) * 1e6
                return int(round(v)) if abs(v) < 2 ** 30 else 2 ** 30
            except Exception:
                return 2 ** 30

        def mk_res(orig):
            def debump_residue(deb, residue, conflict_names, *xa, **xk):
                call = {"res": _rid(residue), "stage": tr.cur_stage, "ev": []}
                cur.append(call)
                try:
                    r = orig(deb, residue, conflict_names, *xa, **xk)
                    call["ev"].append({"e": "ret", "v": bool(r)})
                    return r
                finally:
                    cur.pop()
                    tr.debump_calls.append(call)
            return debump_residue

        def mk_score(orig):
            def score_dihedral_angle(deb, residue, anglenum, *xa, **xk):
                r = orig(deb, residue, anglenum, *xa, **xk)
                if cur:
                    cur[-1]["ev"].append({"e": "score", "s": q6(r)})
                return r
            return score_dihedral_angle

        def mk_set(orig):
            def set_dihedral_angle(deb, residue, anglenum, angle, *xa, **xk):
                r = orig(deb, residue, anglenum, angle, *xa, **xk)
                if cur:
                    try:
                        a = int(round(float(angle) * 1000))
                    except Exception:
                        a = 2 ** 30
                    cur[-1]["ev"].append({"e": "set", "a": a if abs(a) < 2 ** 30 else 2 ** 30})
                return r
            return set_dihedral_angle

        def mk_conf(orig):
            def find_residue_conflicts(deb, residue, *xa, **xk):
                r = orig(deb, residue, *xa, **xk)
                if cur and tr.frame_name(2).endswith("debump_residue"):
                    try:
                        k = len(r)
                    except Exception:
                        k = 1 if r else 0
                    cur[-1]["ev"].append({"e": "conf", "k": k})
                return r
            return find_residue_conflicts

        def mk_pick(orig):
            def pick_dihedral_angle(residue, conflict_names, *xa, **xk):
                r = orig(residue, conflict_names, *xa, **xk)
                if cur:
                    cur[-1]["ev"].append({"e": "pick", "n": int(r) if isinstance(r, int) else -2})
                return r
            return pick_dihedral_angle
        self._patch(debump.Debump, "debump_residue", mk_res)
        self._patch(debump.Debump, "score_dihedral_angle", mk_score)
        self._patch(debump.Debump, "set_dihedral_angle", mk_set)
        self._patch(debump.Debump, "find_residue_conflicts", mk_conf)
        self._patch(presidue.Residue, "pick_dihedral_angle", mk_pick)

    def _install_hbsched(self):
        """the scheduler of HydrogenRoutines.optimize_hydrogens (spec HbondSched): the potential bonds the detection loop
        stored, and every call the scheduler itself makes on an optimisation object (finalize / try_donor / try_acceptor /
        try_both / complete) or on Residue.has_atom, with the objects whose residue.fixed truth value changed in the call.
        Only calls whose caller frame is optimize_hydrogens are logged (nested try_* calls belong to the classes)."""
        import pdb2pqr.hydrogens as hyd
        import pdb2pqr.hydrogens.structures as hst
        import pdb2pqr.residue as presidue
        import pdb2pqr.aa as aa

        tr = self
        tr.hbsched_calls = []
        cur = []

        def caller_is_scheduler():
            f = sys._getframe(2)
            return f.f_code.co_name == "optimize_hydrogens" and f.f_globals.get("__name__", "") == "pdb2pqr.hydrogens"

        def snapshot(call):
            hr = call["hr"]
            optlist = list(hr.optlist)
            call["objs"] = optlist
            idx = {id(o): k + 1 for k, o in enumerate(optlist)}
            ridx = {id(o.residue): k + 1 for k, o in enumerate(optlist)}
            call["ridx"] = ridx
            aids = {}

            def aid(a):
                return aids.setdefault(id(a), len(aids) + 1)
            dists = sorted(set(float(h.dist) for o in optlist for h in o.hbonds))
            rank = {d: k + 1 for k, d in enumerate(dists)}
            al = set(id(a) for a in hr.atomlist)
            hb = []
            for o in optlist:
                row = []
                for h in o.hbonds:
                    a, b = h.atom1, h.atom2
                    own = hr.resmap.get(b.residue) if id(b) in al else None
                    row.append({"a": aid(a), "b": aid(b), "d": rank[float(h.dist)], "da": bool(a.hdonor), "aa": bool(a.hacceptor),
                                "db": bool(b.hdonor), "ab": bool(b.hacceptor), "al": id(b) in al, "ob": idx.get(id(own), 0),
                                "wa": isinstance(a.residue, aa.WAT), "wb": isinstance(b.residue, aa.WAT), "na": str(a.name), "nb": str(b.name),
                                "own_a": ridx.get(id(a.residue), 0)})
                hb.append(row)
            call["aid"] = aid
            # atoms that occur in a potential bond, in id order; their donor / acceptor flags are environment state
            tracked = [None] * len(aids)
            for o in optlist:
                for h in o.hbonds:
                    tracked[aids[id(h.atom1)] - 1] = h.atom1
                    tracked[aids[id(h.atom2)] - 1] = h.atom2
            call["tracked"] = tracked
            call["fl"] = [(bool(a.hdonor), bool(a.hacceptor)) for a in tracked]
            call["rec"].update(n=len(optlist), hb=hb, fixed0=[bool(o.residue.fixed) for o in optlist],
                               fl0=[list(x) for x in call["fl"]], kinds=[type(o).__name__ for o in optlist])
            call["fx"] = [bool(o.residue.fixed) for o in optlist]

        def delta(call):
            now = [bool(o.residue.fixed) for o in call["objs"]]
            ch = [k + 1 for k, (x, y) in enumerate(zip(call["fx"], now)) if x != y]
            call["fx"] = now
            return ch

        def fdelta(call):
            now = [(bool(a.hdonor), bool(a.hacceptor)) for a in call["tracked"]]
            ch = [[k + 1, y[0], y[1]] for k, (x, y) in enumerate(zip(call["fl"], now)) if x != y]
            call["fl"] = now
            return ch

        def mk_opt(orig):
            def optimize_hydrogens(hr, *xa, **xk):
                call = {"hr": hr, "rec": {"stage": tr.cur_stage, "ev": []}}
                cur.append(call)
                try:
                    return orig(hr, *xa, **xk)
                finally:
                    cur.pop()
                    if "objs" not in call:
                        try:
                            snapshot(call)
                        except Exception as e:  # noqa
                            call["rec"]["error"] = repr(e)[:100]
                    tr.hbsched_calls.append(call["rec"])
            return optimize_hydrogens

        def mk_meth(kind):
            def make(orig):
                def meth(obj, *args, **xk):
                    if not cur or not caller_is_scheduler():
                        return orig(obj, *args, **xk)
                    call = cur[-1]
                    if "objs" not in call:
                        snapshot(call)
                    aid = call["aid"]
                    ev = {"e": kind, "o": next((k + 1 for k, o in enumerate(call["objs"]) if o is obj), 0), "a": 0, "b": 0, "p": 0,
                          "r": 0, "n": "", "fx": [], "fl": []}
                    if kind in ("don", "acc", "both") and len(args) >= 2:
                        ev["a"], ev["b"] = aid(args[0]), aid(args[1])
                    if kind == "both" and len(args) >= 3:
                        ev["p"] = next((k + 1 for k, o in enumerate(call["objs"]) if o is args[2]), 0)
                    try:
                        r = orig(obj, *args, **xk)
                        if kind == "both":
                            ev["r"] = 1 if r else 0
                        return r
                    finally:
                        ev["fx"] = delta(call)
                        ev["fl"] = fdelta(call)
                        call["rec"]["ev"].append(ev)
                return meth
            return make

        def mk_has(orig):
            def has_atom(res, name, *xa, **xk):
                r = orig(res, name, *xa, **xk)
                if cur and caller_is_scheduler():
                    call = cur[-1]
                    if "objs" not in call:
                        snapshot(call)
                    call["rec"]["ev"].append({"e": "has", "o": call["ridx"].get(id(res), 0), "a": 0, "b": 0, "p": 0, "r": bool(r),
                                              "n": str(name), "fx": [], "fl": []})
                return r
            return has_atom

        self._patch(hyd.HydrogenRoutines, "optimize_hydrogens", mk_opt)
        for klass in (hst.Flip, hst.Generic, hst.Alcoholic, hst.Water, hst.Carboxylic):
            for name, kind in (("finalize", "fin"), ("try_donor", "don"), ("try_acceptor", "acc"), ("try_both", "both"), ("complete", "cmp")):
                if name in klass.__dict__:
                    self._patch(klass, name, mk_meth(kind))
        self._patch(presidue.Residue, "has_atom", mk_has)

    def _install_patch(self):
        """Biomolecule.apply_patch on the level of names (spec ApplyPatch): name sets of the reference and of the residue before
        and after, and what the patch says it adds / removes / renames"""
        import pdb2pqr.biomolecule as bm

        tr = self
        tr.patch_calls = []

        def make(orig):
            def apply_patch(bio, patchname, residue, *xa, **xk):
                rec = None
                try:
                    patch = bio.patch_map.get(patchname)
                    if patch is not None and getattr(residue, "reference", None) is not None:
                        rec = {"patch": str(patchname), "res": _rid(residue), "stage": tr.cur_stage,
                               "ref0": [str(n) for n in residue.reference.map], "res0": [str(a.name) for a in residue.atoms],
                               "add": [str(n) for n in patch.map], "rem": [str(n) for n in patch.remove],
                               "alt": [[str(k), str(v)] for k, v in patch.altnames.items()]}
                except Exception:  # noqa
                    rec = None
                r = orig(bio, patchname, residue, *xa, **xk)
                if rec is not None:
                    rec["ref1"] = [str(n) for n in residue.reference.map]
                    rec["res1"] = [str(a.name) for a in residue.atoms]
                    if len(tr.patch_calls) < 5000:
                        tr.patch_calls.append(rec)
                return r
            return apply_patch
        self._patch(bm.Biomolecule, "apply_patch", make)

    def _install_log(self):
        import logging

        tr = self

        class H(logging.Handler):
            def emit(self, record):
                try:
                    msg = record.getMessage()
                except Exception:
                    msg = str(record.msg)
                tr.emit(e="log", level=record.levelname, msg=msg[:300], logger=record.name)
        h = H(level=logging.WARNING)
        root = logging.getLogger("pdb2pqr")
        self._log_state = (root.level, logging.root.manager.disable)
        logging.disable(logging.NOTSET)
        root.setLevel(logging.WARNING)
        root.addHandler(h)

        class Undo:
            pass

        def undo():
            root.removeHandler(h)
            root.setLevel(self._log_state[0])
            logging.disable(logging.CRITICAL)
        self._extra_undo = getattr(self, "_extra_undo", []) + [undo]

    # ------------------------------------------------------------------ pipeline stages
    STAGES = [
        # (stage, module, class or None, attribute)
        ("Transform", "pdb2pqr.main", None, "transform_arguments"),
        ("CheckFiles", "pdb2pqr.main", None, "check_files"),
        ("CheckOptions", "pdb2pqr.main", None, "check_options"),
        ("GetDefinitions", "pdb2pqr.io", None, "get_definitions"),
        ("ReadMolecule", "pdb2pqr.io", None, "get_molecule"),
        ("DropWater", "pdb2pqr.main", None, "drop_water"),
        ("SetupMolecule", "pdb2pqr.main", None, "setup_molecule"),
        ("SetTermini", "pdb2pqr.biomolecule", "Biomolecule", "set_termini"),
        ("UpdateBonds", "pdb2pqr.biomolecule", "Biomolecule", "update_bonds"),
        ("LoadFF", "pdb2pqr.forcefield", "Forcefield", "__init__"),
        ("SetHip", "pdb2pqr.biomolecule", "Biomolecule", "set_hip"),
        ("Repair", "pdb2pqr.main", None, "is_repairable"),
        ("Repair", "pdb2pqr.biomolecule", "Biomolecule", "repair_heavy"),
        ("UpdateSS", "pdb2pqr.biomolecule", "Biomolecule", "update_ss_bridges"),
        ("Debump", "pdb2pqr.debump", "Debump", "debump_biomolecule"),
        ("RemoveH", "pdb2pqr.biomolecule", "Biomolecule", "remove_hydrogens"),
        ("RunPka", "pdb2pqr.main", None, "run_propka"),
        ("ApplyPka", "pdb2pqr.biomolecule", "Biomolecule", "apply_pka_values"),
        ("AddH", "pdb2pqr.biomolecule", "Biomolecule", "add_hydrogens"),
        ("OptInit", "pdb2pqr.hydrogens", "HydrogenRoutines", "set_optimizeable_hydrogens"),
        ("OptInit", "pdb2pqr.biomolecule", "Biomolecule", "hold_residues"),
        ("OptInit", "pdb2pqr.hydrogens", "HydrogenRoutines", "initialize_full_optimization"),
        ("OptInit", "pdb2pqr.hydrogens", "HydrogenRoutines", "initialize_wat_optimization"),
        ("Optimize", "pdb2pqr.hydrogens", "HydrogenRoutines", "optimize_hydrogens"),
        ("Cleanup", "pdb2pqr.hydrogens", "HydrogenRoutines", "cleanup"),
        ("SetStates", "pdb2pqr.biomolecule", "Biomolecule", "set_states"),
        ("ApplyFF", "pdb2pqr.biomolecule", "Biomolecule", "apply_force_field"),
        ("Ligand", "pdb2pqr.ligand.mol2", "Mol2Molecule", "assign_parameters"),
        ("ChargeCheck", "pdb2pqr.main", None, "noninteger_charge"),
        ("NameScheme", "pdb2pqr.biomolecule", "Biomolecule", "apply_name_scheme"),
        ("Header", "pdb2pqr.io", None, "print_pqr_header"),
        ("Header", "pdb2pqr.io", None, "print_pqr_header_cif"),
        ("RenderLines", "pdb2pqr.io", None, "print_biomolecule_atoms"),
        ("PrintPqr", "pdb2pqr.main", None, "print_pqr"),
        ("PrintPdb", "pdb2pqr.main", None, "print_pdb"),
        ("DumpApbs", "pdb2pqr.io", None, "dump_apbs"),
    ]

    def _install_stages(self):
        import importlib

        tr = self
        tr.bio = None
        tr.input_heavy = None
        tr.last_digest = None
        tr.out_path = getattr(tr, "out_path", None)
        tr.fs0 = tr.fs_state()
        tr.fault = getattr(tr, "fault", None)       # (stage, "entry"|"exit", exception class, call index)
        tr.calls = {}
        tr.depth = 0

        def mk(stage, attr):
            def make(orig):
                def wrapper(*a, **kw):
                    if not tr.on:
                        return orig(*a, **kw)
                    n = tr.calls[(stage, attr)] = tr.calls.get((stage, attr), 0) + 1
                    nested = tr.depth > 0
                    tr.depth += 1
                    try:
                        if not nested:
                            tr.cur_stage = stage
                            tr.stage_event(stage, attr, "enter")
                            if tr.fault and tr.fault[0] == stage and tr.fault[1] == "entry" and tr.fault[3] == n:
                                tr.fault_fired = True
                                raise tr.fault[2](f"injected fault at entry of {stage}")
                        try:
                            r = orig(*a, **kw)
                        except BaseException as e:
                            if not nested:
                                tr.stage_event(stage, attr, "raise", exc=type(e).__name__)
                            raise
                        if stage == "SetupMolecule" and isinstance(r, tuple):
                            tr.bio = r[0]
                            tr.input_heavy = [x for x in tr.bio.atoms if not x.is_hydrogen]
                        if stage == "ApplyFF" and isinstance(r, tuple) and len(r) == 2:
                            tr.ff_lists = r            # (matched, missing): the ligand loop extends these objects
                        if stage == "RenderLines" and getattr(tr, "rendered", None) is None and a:
                            tr.rendered = list(a[0])
                        if not nested:
                            if tr.fault and tr.fault[0] == stage and tr.fault[1] == "exit" and tr.fault[3] == n:
                                tr.fault_fired = True
                                tr.stage_event(stage, attr, "raise", exc=tr.fault[2].__name__)
                                raise tr.fault[2](f"injected fault at exit of {stage}")
                            tr.stage_event(stage, attr, "exit")
                        return r
                    finally:
                        tr.depth -= 1
                        if not nested:
                            tr.cur_stage = ""
                return wrapper
            return make

        for stage, mod, klass, attr in self.STAGES:
            try:
                m = importlib.import_module(mod)
                obj = getattr(m, klass) if klass else m
            except (ImportError, AttributeError):
                self.unobservable.append(f"{mod}.{klass or ''}.{attr}")
                continue
            self._patch(obj, attr, mk(stage, attr))

    def fs_state(self):
        import hashlib
        import os

        p = getattr(self, "out_path", None)
        if not p or not os.path.exists(p):
            return ("absent",)
        st = os.stat(p)
        with open(p, "rb") as f:
            h = hashlib.sha1(f.read()).hexdigest()
        return ("present", st.st_size, st.st_mtime_ns, h)

    def digests(self):
        import hashlib

        b = self.bio
        if b is None:
            return None

        def h(items):
            return hashlib.sha1(repr(items).encode()).hexdigest()[:16]
        atoms = b.atoms
        return {"heavy": h([(a.x, a.y, a.z) for a in (self.input_heavy or [])]),
                "coords": h([(a.x, a.y, a.z) for a in atoms]),
                "order": h([id(a) for a in atoms]),
                "numbers": h([(a.ffcharge, a.radius) for a in atoms]),
                "names": h([(a.name, a.res_name) for a in atoms])}

    def stage_event(self, stage, attr, kind, exc=None):
        d = self.digests()
        wrote = []
        if d is not None and self.last_digest is not None:
            wrote = [k for k in d if d[k] != self.last_digest[k]]
        elif d is not None and self.last_digest is None:
            wrote = ["heavy", "coords", "order", "numbers", "names"]   # the model has just been created
        self.last_digest = d if d is not None else self.last_digest
        if kind == "exit" and d is not None:
            sd = getattr(self, "stage_digests", None)
            if sd is None:
                sd = self.stage_digests = {}
            name = stage
            if stage == "Debump" and "AddH" in sd:
                name = "Debump2"
            if stage in ("LoadFF", "RenderLines") and "ChargeCheck" in sd and stage in sd:
                name = None      # repeated helper calls inside later stages
            if name:
                sd[name] = {"heavy": d["heavy"], "coords": d["coords"], "numbers": d["numbers"]}
        fs = self.fs_state()
        self.emit(e="stage", stage=stage, attr=attr, kind=kind, exc=exc, wrote=wrote, pqr_differs=(fs != self.fs0))


_MISSING = object()


def _is_h(atom):
    try:
        return bool(atom.is_hydrogen)
    except Exception:
        return str(getattr(atom, "name", "")).startswith("H")


def _rid(res):
    return f"{getattr(res, 'name', '?')} {getattr(res, 'chain_id', '')} {getattr(res, 'res_seq', '')}{getattr(res, 'ins_code', '')}"
