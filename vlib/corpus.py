"""Input variants shared by the pipeline-level checks (C03, C04, C05): legal inputs that reach rarely used branches."""
from . import gen


def variants(quick, rng):
    """list of {"what", "text", "args"}"""
    jobs = []
    ffs = gen.FORCE_FIELDS
    k = 0
    # the other labelling of equivalent positions (carboxylate / guanidinium / ring / branch atoms), flipped amides and rings
    for x, pairs in gen.EQUIVALENT_NAMES.items():
        for pos in ([1] if quick else [0, 1, 2]):
            seq = ["ALA", "ALA", "ALA"]
            seq[pos] = x
            at = gen.swap_names(gen.peptide(seq), pos, pairs)
            jobs.append({"what": f"{'-'.join(seq)} with {pairs} exchanged", "text": gen.pdb_text([at + gen.water((6, 14, 4), resseq=101)]),
                         "args": [f"--ff={ffs[k % 6] if x not in ('ASH', 'GLH') else 'PARSE'}"]})
            k += 1
    jobs.append({"what": "acids with exchanged oxygens at pH 1", "args": ["--ff=PARSE", "--titration-state-method=propka", "--with-ph=1"],
                 "text": gen.pdb_text([gen.swap_names(gen.swap_names(gen.peptide(["ALA", "ASP", "GLY", "GLU", "ALA"]), 1, [("OD1", "OD2")]), 3, [("OE1", "OE2")])])})
    # resolved neutral acids: one C-O bond long (the hydroxyl), either oxygen; named ASH / GLH or protonated by titration
    for x, c, o1, o2 in (("ASH", "CG", "OD1", "OD2"), ("GLH", "CD", "OE1", "OE2"), ("ASP", "CG", "OD1", "OD2"), ("GLU", "CD", "OE1", "OE2")):
        for long_, short in ((o1, o2), (o2, o1)):
            for pos in ([1] if quick else [0, 1, 2]):
                seq = ["ALA", "ALA", "ALA"]
                seq[pos] = x
                at = gen.set_bond_length(gen.set_bond_length(gen.peptide(seq), pos, c, long_, 1.32), pos, c, short, 1.21)
                jobs.append({"what": f"{'-'.join(seq)} with long {c}-{long_}", "text": gen.pdb_text([at + gen.water((6, 14, 4), resseq=101)]),
                             "args": ["--ff=PARSE"] + ([] if x in ("ASH", "GLH") else ["--titration-state-method=propka", "--with-ph=1"])})
    # random side-chain conformations (torsions only; some of them clash and are debumped)
    for rep in range(6 if quick else 80):
        seq = [rng.choice(gen.AMINO) for _ in range(10)]
        at = gen.randomize_sidechains(gen.peptide(seq), rng)
        jobs.append({"what": f"random conformation {'-'.join(seq)}", "text": gen.pdb_text([at]),
                     "args": [f"--ff={rng.choice(ffs)}"] + rng.choice([[], [], ["--noopt"], ["--nodebump"]])})
    # several side-chain atoms missing at once
    for rep in range(3 if quick else 120):
        seq = [rng.choice(gen.AMINO) for _ in range(14)]
        heavy = gen.peptide(seq)
        side = [(a["res_index"], a["name"]) for a in heavy if a["name"] not in ("N", "CA", "C", "O", "OXT")]
        om = set(rng.sample(side, min(len(side), rng.randint(2, 4))))
        jobs.append({"what": f"{'-'.join(seq)} without {sorted(om)}", "text": gen.pdb_text([gen.peptide(seq, omit=om)]),
                     "args": [f"--ff={rng.choice(ffs)}"]})
    # protonation states: titration runs, neutral termini
    mix = ["ASP", "GLU", "HIS", "LYS", "TYR", "CYS", "ARG", "SER"]
    jobs.append({"what": "titratable-octapeptide pH 3", "text": gen.pdb_text([gen.peptide(mix)]),
                 "args": ["--ff=PARSE", "--titration-state-method=propka", "--with-ph=3"]})
    jobs.append({"what": "titratable-octapeptide pH 12", "text": gen.pdb_text([gen.peptide(mix)]),
                 "args": ["--ff=AMBER", "--titration-state-method=propka", "--with-ph=12"]})
    jobs.append({"what": "neutral-termini", "text": gen.pdb_text([gen.peptide(mix)]), "args": ["--ff=PARSE", "--neutraln", "--neutralc"]})
    # protonated acids without any water in the structure, with optimisation switched off / on
    acid = ["ALA", "ASH", "SER", "GLH", "ALA"]
    for args in (["--ff=AMBER", "--noopt"], ["--ff=AMBER", "--noopt", "--nodebump"], ["--ff=AMBER"], ["--ff=PARSE", "--noopt"]):
        jobs.append({"what": f"named acids, no water", "text": gen.pdb_text([gen.peptide(acid)]), "args": args})
    jobs.append({"what": "acids at pH 1, no water, noopt", "text": gen.pdb_text([gen.peptide(["ALA", "ASP", "SER", "GLU", "ALA"])]),
                 "args": ["--ff=PARSE", "--noopt", "--titration-state-method=propka", "--with-ph=1"]})
    jobs.append({"what": "acids at pH 1, water dropped, noopt", "text": gen.pdb_text([gen.peptide(["ALA", "ASP", "SER", "GLU", "ALA"]) + gen.water((6, 14, 4), resseq=101)]),
                 "args": ["--ff=AMBER", "--noopt", "--drop-water", "--titration-state-method=propka", "--with-ph=1"]})
    # three / four peptides under one chain identifier, told apart only by their OXT atoms
    parts = [gen.transform(gen.peptide(sq, chain="A", start=st), t=(0, 0, 30.0 * n))
             for n, (sq, st) in enumerate(((["LYS", "ALA"], 1), (["GLY", "ASP", "SER"], 3), (["ARG", "ALA"], 6), (["TYR", "GLY", "HIS"], 8)))]
    for npart in (3, 4):
        merged = [a for part in parts[:npart] for a in part]
        for args in (["--ff=AMBER"], ["--clean"], ["--ff=PARSE", "--noopt"]):
            jobs.append({"what": f"{npart} peptides under one chain id", "text": gen.pdb_text([merged]), "args": args})
    # alternative spellings that the topology itself declares (terminal oxygens OT1/OT2, O'/O''; HN, 1HB, ...)
    base5 = ["ALA", "SER", "LYS", "GLY", "ASP"]
    for style in (0, 1):
        jobs.append({"what": f"terminal oxygens under alternative spelling {style}", "args": [f"--ff={ffs[style]}"],
                     "text": gen.pdb_text([gen.respell(gen.peptide(base5), style, only=("O", "OXT"))])})
        jobs.append({"what": f"hydrogens under alternative spelling {style}", "args": [f"--ff={ffs[2 + style]}"],
                     "text": gen.pdb_text([gen.respell(gen.peptide(["SER", "LYS", "HIS", "ASP", "TYR", "LEU"], hydrogens=True), style)])})
    # one MODEL / ENDMDL pair and no END record (a model cut out of an ensemble)
    body = gen.pdb_text([gen.peptide(["ALA", "SER", "LYS", "GLY", "HIS"]) + gen.water((6, 14, 4), resseq=101)], end=False).rstrip("\n")
    jobs.append({"what": "single MODEL without END", "text": f"MODEL        1\n{body}\nENDMDL\n", "args": ["--ff=AMBER"]})
    jobs.append({"what": "single MODEL without ENDMDL and END", "text": f"MODEL        1\n{body}\n", "args": ["--ff=PARSE", "--noopt"]})
    # every residue type at the chain ends with all steps on (flips, hydroxyls, terminal groups)
    for x in gen.AMINO:
        for pos in (0, 2):
            if quick and (gen.AMINO.index(x) + pos) % 2:
                continue
            seq = ["ALA", "ALA", "ALA"]
            seq[pos] = x
            jobs.append({"what": f"{'-'.join(seq)} all steps", "text": gen.pdb_text([gen.peptide(seq) + gen.water((6, 14, 4), resseq=101)]), "args": ["--ff=AMBER"]})
    for x in ("ASN", "GLN", "HIS"):
        seq = ["ALA", "ALA", x]
        jobs.append({"what": f"{'-'.join(seq)} all steps", "text": gen.pdb_text([gen.peptide(seq) + gen.water((6, 14, 4), resseq=101)]), "args": ["--ff=PARSE"]})
    # a backbone atom missing in an inner / terminal residue (rebuilt from the peptide neighbours)
    for n, x in enumerate(gen.AMINO if not quick else gen.AMINO[::4]):
        for pos, nm in ((1, "O"), (0, "O"), (1, "C"), (1, "N"), (2, "O"), (1, "CA"))[:(6 if not quick else 3)]:
            seq = ["ALA", "ALA", "ALA", "ALA"]
            seq[pos] = x
            jobs.append({"what": f"{'-'.join(seq)} without backbone {nm} of residue {pos + 1}", "args": [f"--ff={ffs[(n + pos) % 6]}"],
                         "text": gen.pdb_text([gen.peptide(seq, omit={(pos, nm)})])})
    # nucleic acids: the old spellings the topology declares (C5*, O1P, ...), hydrogens given, base / sugar atoms missing
    jobs.append({"what": "DNA strand, alternative spellings", "text": gen.pdb_text([gen.respell(gen.nucleic("ACGT", "D"))]), "args": ["--ff=AMBER"]})
    jobs.append({"what": "RNA strand, alternative spellings", "text": gen.pdb_text([gen.respell(gen.nucleic("ACGU", "R"))]), "args": ["--ff=CHARMM"]})
    jobs.append({"what": "DNA strand with hydrogens", "text": gen.pdb_text([gen.nucleic("ACGT", "D", hydrogens=True)]), "args": ["--ff=AMBER"]})
    dna = [a for a in gen.nucleic("ACGT", "D") if not (a["res_index"] == 0 and a["name"] == "N9") and not (a["res_index"] == 2 and a["name"] == "O4'")]
    jobs.append({"what": "DNA strand without N9 of 1 and O4' of 3", "text": gen.pdb_text([dna]), "args": ["--ff=CHARMM"]})
    rna = [a for a in gen.nucleic("ACGU", "R") if not (a["res_index"] == 1 and a["name"] == "O2'")]
    jobs.append({"what": "RNA strand without O2' of 2", "text": gen.pdb_text([rna]), "args": ["--ff=AMBER"]})
    # ... and as deposited today: phosphate oxygens named OP1 / OP2 on every nucleotide type, thymidine inside the strand and at its end
    v3 = lambda at: [dict(a, name={"O1P": "OP1", "O2P": "OP2"}.get(a["name"], a["name"])) for a in at]
    jobs.append({"what": "DNA strand ATCGT, OP1/OP2 names", "text": gen.pdb_text([v3(gen.nucleic("ATCGT", "D"))]), "args": ["--ff=AMBER"]})
    jobs.append({"what": "DNA strand GTTA, OP1/OP2 names, no moves allowed", "text": gen.pdb_text([v3(gen.nucleic("GTTA", "D"))]),
                 "args": ["--ff=TYL06", "--nodebump", "--noopt"]})
    jobs.append({"what": "RNA strand UGCA, OP1/OP2 names", "text": gen.pdb_text([v3(gen.nucleic("UGCA", "R"))]), "args": ["--ff=AMBER"]})
    jobs.append({"what": "protein and DNA", "args": ["--ff=AMBER"],
                 "text": gen.pdb_text([gen.peptide(["ALA", "LYS", "SER"]), gen.nucleic("GC", "D", origin=(30.0, 0, 0)), gen.water((15, 5, 5), resseq=301)])})
    # three copies of one peptide under one chain identifier (a homo-oligomer written without distinct ids), and without any id / TER
    tri = [a for n in range(3) for a in gen.transform(gen.peptide(["LYS", "ALA", "SER"], chain="A", start=1 + 3 * n), t=(0, 0, 30.0 * n))]
    jobs.append({"what": "homo-trimer under one chain id", "text": gen.pdb_text([tri]), "args": ["--ff=AMBER"]})
    tri0 = [dict(a, chain="") for a in tri]
    jobs.append({"what": "homo-trimer without chain ids or TER", "text": gen.pdb_text([tri0], ter=False), "args": ["--ff=PARSE", "--nodebump", "--noopt"]})
    # atoms under an alternative spelling AND in two alternate locations (the first one counts)
    alias = []
    for a in gen.peptide(["ALA", "ILE", "SER", "LEU"]):
        if a["res_index"] == 1 and a["name"] == "CD1":
            alias += [dict(a, name="CD", alt="A"), dict(a, name="CD", alt="B", xyz=a["xyz"] + 0.3)]
        elif a["res_index"] == 2 and a["name"] == "OG":
            alias += [dict(a, alt="A"), dict(a, alt="B", xyz=a["xyz"] + 0.25)]
        else:
            alias.append(a)
    jobs.append({"what": "alias-named atom in two alternate locations", "text": gen.pdb_text([alias]), "args": ["--ff=PARSE"]})
    jobs.append({"what": "alias-named atom in two alternate locations, clean", "text": gen.pdb_text([alias]), "args": ["--clean"]})
    # backbone gap inside one chain (no TER, numbering continues)
    full = gen.peptide(["ALA", "SER", "LYS", "GLY", "TRP", "ASP", "VAL", "LEU"])
    gap = [a for a in full if a["res_index"] not in (3, 4)]
    jobs.append({"what": "backbone-gap", "text": gen.pdb_text([gap]), "args": ["--ff=AMBER"]})
    jobs.append({"what": "backbone-gap-noopt", "text": gen.pdb_text([gap]), "args": ["--ff=CHARMM", "--noopt"]})
    # part of the hydrogens given
    hp = gen.peptide(["SER", "LYS", "HIS", "ASP", "TYR", "CYS", "ALA", "LEU"], hydrogens=True)
    for rep in range(1 if quick else 6):
        some = [a for a in hp if not (a["name"].startswith("H") and rng.random() < 0.5)]
        jobs.append({"what": f"half-the-hydrogens-present#{rep}", "text": gen.pdb_text([some]), "args": ["--ff=AMBER"]})
    return jobs
