"""./check <id> [--tier quick|thorough] [--seed N] [--replay path]"""
import argparse
import importlib
import os
import sys
import traceback

from . import core

LEVELS = {}


def main():
    ap = argparse.ArgumentParser()
    ap.add_argument("pid")
    ap.add_argument("--tier", default=os.environ.get("VERIF_TIER", "quick"), choices=["quick", "thorough"])
    ap.add_argument("--seed", type=int, default=int(os.environ.get("VERIF_SEED", "0") or 0))
    ap.add_argument("--replay")
    a = ap.parse_args()
    os.environ.setdefault("PYTHONHASHSEED", "0")
    os.environ["PDB2PQR_VERIF_TRACE"] = "1"
    try:
        mod = importlib.import_module(f"vlib.checks.{a.pid.lower()}")
    except ModuleNotFoundError:
        print(f"no check for {a.pid}", file=sys.stderr)
        return 2
    ctx = core.Ctx(a.pid, a.tier, a.seed, getattr(mod, "LEVEL", "model_checking"))
    try:
        if a.replay and hasattr(mod, "replay"):
            mod.replay(ctx, a.replay)
        elif a.replay:
            # generic replay: re-run the check with the tier and seed recorded in the replay file (inputs are
            # deterministic functions of tier, seed and case) and report only the violation with the recorded key
            import json
            rp = json.load(open(a.replay))
            ctx = core.Ctx(a.pid, rp.get("tier", a.tier), int(rp.get("seed", a.seed)), getattr(mod, "LEVEL", "model_checking"))
            os.environ["VERIF_EVIDENCE_DIR"] = os.path.join(core.VERIF, ".work", "replay-evidence")
            os.makedirs(os.environ["VERIF_EVIDENCE_DIR"], exist_ok=True)
            os.environ["VERIF_MAXVIOL"] = "100000"
            mod.run(ctx)
            ctx.violations = [v for v in ctx.violations if v["key"] == rp["key"]]
            if not ctx.violations:
                print(f"replay {a.replay}: key {rp['key']} not reproduced on the current tree")
        else:
            mod.run(ctx)
        return ctx.finish()
    except core.MachineryError as e:
        print(f"MACHINERY-ERROR {a.pid}: {e}", file=sys.stderr)
        import shutil
        shutil.rmtree(ctx.work, ignore_errors=True)
        return 2
    except Exception:
        traceback.print_exc()
        print(f"MACHINERY-ERROR {a.pid}: unexpected exception", file=sys.stderr)
        import shutil
        shutil.rmtree(ctx.work, ignore_errors=True)
        return 2


if __name__ == "__main__":
    sys.exit(main())
