"""Runs pdb2pqr (the tree under test) in-process, optionally with the tracer installed."""
import io
import os
import sys
import contextlib

from . import core


def run(args, groups=None, keep_stdout=False, qmode="round", out_path=None, fault=None):
    """args: list of command-line arguments for pdb2pqr.main.run_pdb2pqr.
    Returns dict(ok, exc, exc_type, missed, pka, bio, tracer)."""
    core.use_repo()
    import pdb2pqr.main as pmain

    tr = None
    if groups:
        from .tracer import Tracer

        tr = Tracer()
        tr.qmode = qmode
        tr.out_path = out_path
        tr.fault = fault
        tr.fault_fired = False
        tr.install(groups)
    out = {"ok": False, "exc": None, "exc_type": "", "missed": None, "pka": None, "bio": None, "tracer": tr}
    try:
        with contextlib.redirect_stdout(io.StringIO()), contextlib.redirect_stderr(io.StringIO()):
            missed, pka, bio = pmain.run_pdb2pqr(args)
        out.update(ok=True, missed=missed, pka=pka, bio=bio)
    except SystemExit as e:
        out.update(exc=e, exc_type="SystemExit")
    except BaseException as e:  # noqa: any failure is an observable outcome
        out.update(exc=e, exc_type=type(e).__name__)
    finally:
        if tr:
            tr.flush_moves()
            tr.uninstall()
    return out
