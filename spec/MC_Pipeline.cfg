SPECIFICATION Spec
CONSTANTS
  OptionSets <- AllOptionSets
  InitialFs = {"absent", "old"}
  FaultStages <- AllFaults
INVARIANT WriteOnlyWhenComplete
INVARIANT FailureLeavesOutputUntouched
INVARIANT ErrorIsLoud
INVARIANT HeavyOnlyInMoveStages
INVARIANT NoMoveWhenForbidden
INVARIANT NumbersFinalBeforeNaming
INVARIANT NamesOnlyByNameScheme
