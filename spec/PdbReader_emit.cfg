SPECIFICATION Spec
CONSTANTS
  MaxLen = 2
  BlankStops = TRUE
  EndEmptyRaises = TRUE
  GluedKeepsWater = TRUE
  DropWaterChoices = {FALSE, TRUE}
  Emit = TRUE
INVARIANT EmitInv
