SPECIFICATION Spec
CONSTANTS
  MaxLen = 2
  BlankStops = TRUE
  EndEmptyRaises = TRUE
  GluedKeepsWater = TRUE
  EmptyModelContinues = TRUE
  DropWaterChoices = {FALSE, TRUE}
  Emit = TRUE
INVARIANT EmitInv
