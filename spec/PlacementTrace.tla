-------------------------------- MODULE PlacementTrace --------------------------------
(* Trace validation for Placement.                                                               *)
(* kind "paths": one residue of a real run at the moment add_hydrogens starts (topology order,    *)
(*   bonds, atoms present) with the placements observed in AddH: T.obs = sequence of [name, path, *)
(*   refs] (path from the calling frame and the arguments of quatfit.find_coordinates; refs       *)
(*   identified by matching the template coordinates passed).  The spec replays the loop;         *)
(*   acc = (same sequence); TemplateDetermined is evaluated on the observation.  cs.mode =        *)
(*   "rebuild": the same for repair_heavy (cs.missing = residue.missing at its start).            *)
(* kind "geometry": one added atom at the end of a run: deviations measured by the harness        *)
(*   (micro-A / micro-degree) and the allowance derived from the distortion of the input around   *)
(*   the parent: bonddev <= bondallow, angledev <= angleallow, attached, mindist (distance to the  *)
(*   nearest atom of its residue).                                                                *)
EXTENDS Naturals, Sequences, FiniteSets, TLC, Json, IOUtils, SequencesExt
Traces == JsonDeserialize(IOEnv.TRACE_FILE)
CasesOf == [t \in 1..Len(Traces) |-> Traces[t].cs]
VARIABLES c, k, have, placed, queue, seen
P == INSTANCE Placement WITH Cases <- CasesOf
T == Traces[c]
TSpec == P!Spec
GeoBad == (IF T.bonddev <= T.bondallow THEN {} ELSE {<<"BondLengthFromTemplate", T.name>>}) \cup
          (IF T.angledev <= T.angleallow THEN {} ELSE {<<"BondAnglesFromTemplate", T.name>>}) \cup
          (IF T.attached THEN {} ELSE {<<"AttachedToParent", T.name>>}) \cup
          (IF T.mindist >= 100000 THEN {} ELSE {<<"NoCoincidence", T.name>>})
\* the observation without the pairing field; pairing: the actual atoms handed to the superposition are the atoms
\* whose template coordinates were handed to it, in the same order
Obs == [i \in 1..Len(T.obs) |-> [name |-> T.obs[i].name, path |-> T.obs[i].path, refs |-> T.obs[i].refs]]
Unpaired == {<<"ReferencePairing", T.obs[i].name>> : i \in {j \in 1..Len(T.obs) : T.obs[j].acts # T.obs[j].refs}}
Report == P!Done =>
   PrintT(<<"T", T.id, IF T.kind = "paths" THEN placed = Obs ELSE TRUE,
            SetToSeq(IF T.kind = "paths" THEN P!Bad(Obs) \cup Unpaired ELSE GeoBad)>>)
================================================================================
