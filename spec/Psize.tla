----------------------------------- MODULE Psize -----------------------------------
(***************************************************************************)
(* APBS grid sizing from a PQR file (property C17).                        *)
(* Code anchors: psize.Psize.parse_lines (line loop accumulating the       *)
(* bounding box of centre +- radius), set_length ... set_smallest (sizing  *)
(* arithmetic in code order), inputgen.Elec/Input rendering via            *)
(* io.dump_apbs.                                                           *)
(*                                                                         *)
(* Lengths are integers in units of 1e-4 Angstrom; parameters are          *)
(* rationals.  One action per line parsed and one per sizing step.         *)
(* Deviation constant ParseEveryLine = TRUE is the code before the fix:    *)
(* every line (REMARK, TER, ...) is tokenised after column 30.             *)
(***************************************************************************)
EXTENDS Integers, Sequences, FiniteSets, TLC, Json, SequencesExt

CONSTANTS MaxLen,          \* longest file
          Alphabet,        \* sequence of abstract lines
          Params,          \* set of parameter records [cn, cd, fadd, space, ceil]
          ParseEveryLine,  \* TRUE: header lines are tokenised too (code before the fix)
          Emit

\* abstract lines:  [k |-> "atom", het, c |-> <<x,y,z>>, r]   or  [k |-> noise kind]
\*   noise kinds: "ter", "end", "blank", "remark" (fewer than five words after column 30),
\*                "remarknum" (five numeric words after column 30), "remarktext" (five non-numeric words)
NSym == Len(Alphabet)
L(s) == Alphabet[s]
RemarkNumSphere == [c |-> <<10000, 20000, 30000>>, r |-> 50000]   \* "1.0 2.0 3.0 4.0 5.0"

VARIABLES file, prm, i, box, gotatom, gothet, err, sz, pc
vars == <<file, prm, i, box, gotatom, gothet, err, sz, pc>>

NoBox == [min |-> <<>>, max |-> <<>>]
NoSz  == [mol |-> <<>>, coarse |-> <<>>, fine |-> <<>>, center2 |-> <<>>, ngrid |-> <<>>, nsmall |-> <<>>]

Min2(a, b) == IF a < b THEN a ELSE b
Max2(a, b) == IF a > b THEN a ELSE b
Grow(b, c, r) ==
  IF b.min = <<>> THEN [min |-> [ax \in 1..3 |-> c[ax] - r], max |-> [ax \in 1..3 |-> c[ax] + r]]
  ELSE [min |-> [ax \in 1..3 |-> Min2(b.min[ax], c[ax] - r)], max |-> [ax \in 1..3 |-> Max2(b.max[ax], c[ax] + r)]]

Files == UNION {[1..n -> 1..NSym] : n \in 0..MaxLen}
Init == /\ file \in Files /\ prm \in Params
        /\ i = 0 /\ box = NoBox /\ gotatom = 0 /\ gothet = 0 /\ err = "" /\ sz = NoSz /\ pc = "parse"

(***************************************************************************)
(* parse_lines: one line                                                   *)
(***************************************************************************)
ParseLine ==
  /\ pc = "parse" /\ err = "" /\ i < Len(file)
  /\ LET ln == L(file[i + 1]) IN
     /\ gotatom' = IF ln.k = "atom" /\ ~ln.het THEN gotatom + 1 ELSE gotatom
     /\ gothet'  = IF ln.k = "atom" /\ ln.het THEN gothet + 1 ELSE gothet
     /\ IF ln.k = "atom" THEN box' = Grow(box, ln.c, ln.r) /\ err' = err
        ELSE IF ParseEveryLine /\ ln.k = "remarknum"
             THEN box' = Grow(box, RemarkNumSphere.c, RemarkNumSphere.r) /\ err' = err
        ELSE IF ParseEveryLine /\ ln.k = "remarktext" THEN err' = "ValueError" /\ box' = box
        ELSE UNCHANGED <<box, err>>
  /\ i' = i + 1
  /\ UNCHANGED <<file, prm, sz, pc>>
EndParse ==
  /\ pc = "parse" /\ err = "" /\ i = Len(file)
  /\ IF box = NoBox THEN err' = "TypeError" /\ pc' = "done"      \* set_length on [None, None, None]
     ELSE err' = err /\ pc' = "length"
  /\ UNCHANGED <<file, prm, i, box, gotatom, gothet, sz>>
Fail == pc = "parse" /\ err # "" /\ pc' = "done" /\ UNCHANGED <<file, prm, i, box, gotatom, gothet, err, sz>>

(***************************************************************************)
(* the sizing steps of set_all, in code order                              *)
(***************************************************************************)
Step(from, to, field, val) ==
  /\ pc = from /\ pc' = to /\ sz' = [sz EXCEPT ![field] = val]
  /\ UNCHANGED <<file, prm, i, box, gotatom, gothet, err>>

SetLength == Step("length", "coarse", "mol", [ax \in 1..3 |-> Max2(box.max[ax] - box.min[ax], 1000)])   \* 0.1 A
SetCoarse == Step("coarse", "fine", "coarse", [ax \in 1..3 |-> (prm.cn * sz.mol[ax]) \div prm.cd])
SetFine   == Step("fine", "center", "fine", [ax \in 1..3 |-> Min2(sz.mol[ax] + prm.fadd, sz.coarse[ax])])
SetCenter == Step("center", "grid", "center2", [ax \in 1..3 |-> box.max[ax] + box.min[ax]])            \* 2 x centre
\* temp = int(fine/space + 0.5);  n = 32*int((temp - 1)/32.0 + 0.5) + 1;  n = max(n, 33)
Temp(f)   == (2 * f + prm.space) \div (2 * prm.space)
NGrid(f)  == Max2(32 * ((2 * (Temp(f) - 1) + 32) \div 64) + 1, 33)
SetGrid   == Step("grid", "small", "ngrid", [ax \in 1..3 |-> NGrid(sz.fine[ax])])
\* set_smallest: while 200*n1*n2*n3/2^20 >= ceil: reduce the first largest count by 32
Fits(n) == LET p == n[1] * n[2] IN p < prm.ceil /\ n[3] <= (prm.ceil - 1) \div p
FirstMax(n) == CHOOSE ax \in 1..3 : n[ax] = Max2(n[1], Max2(n[2], n[3])) /\ \A b \in 1..(ax-1) : n[b] < n[ax]
StartSmall == pc = "small" /\ sz.nsmall = <<>> /\ sz' = [sz EXCEPT !.nsmall = sz.ngrid] /\ pc' = pc
              /\ UNCHANGED <<file, prm, i, box, gotatom, gothet, err>>
Reduce    == /\ pc = "small" /\ sz.nsmall # <<>> /\ ~Fits(sz.nsmall)
             /\ LET ax == FirstMax(sz.nsmall) IN
                IF sz.nsmall[ax] - 32 <= 0 THEN err' = "ValueError" /\ pc' = "done" /\ sz' = sz
                ELSE sz' = [sz EXCEPT !.nsmall[ax] = @ - 32] /\ pc' = pc /\ err' = err
             /\ UNCHANGED <<file, prm, i, box, gotatom, gothet>>
Finish    == /\ pc = "small" /\ sz.nsmall # <<>> /\ Fits(sz.nsmall) /\ pc' = "done"
             /\ UNCHANGED <<file, prm, i, box, gotatom, gothet, err, sz>>

Next == ParseLine \/ EndParse \/ Fail \/ SetLength \/ SetCoarse \/ SetFine \/ SetCenter \/ SetGrid
        \/ StartSmall \/ Reduce \/ Finish
Spec == Init /\ [][Next]_vars

(***************************************************************************)
(* The property, for a file f, parameters p and any result record          *)
(* r = [err, box, sz] (the model's, or one observed from the real code).   *)
(***************************************************************************)
AtomsOf(f) == {j \in 1..Len(f) : L(f[j]).k = "atom"}
Encloses(f, r, len) ==
  \A j \in AtomsOf(f) : \A ax \in 1..3 :
     /\ r.sz.center2[ax] - len[ax] <= 2 * (L(f[j]).c[ax] - L(f[j]).r)
     /\ 2 * (L(f[j]).c[ax] + L(f[j]).r) <= r.sz.center2[ax] + len[ax]
\* centred on the molecule: the centre is the middle of the bounding box of the atom spheres
Centred(f, r) ==
  \A ax \in 1..3 :
     LET lo == CHOOSE v \in {L(f[j]).c[ax] - L(f[j]).r : j \in AtomsOf(f)} :
                  \A j \in AtomsOf(f) : v <= L(f[j]).c[ax] - L(f[j]).r
         hi == CHOOSE v \in {L(f[j]).c[ax] + L(f[j]).r : j \in AtomsOf(f)} :
                  \A j \in AtomsOf(f) : v >= L(f[j]).c[ax] + L(f[j]).r
     IN r.sz.center2[ax] = lo + hi
GridLegal(r) == \A ax \in 1..3 : r.sz.ngrid[ax] % 32 = 1 /\ r.sz.ngrid[ax] >= 33
FineLeCoarse(r) == \A ax \in 1..3 : r.sz.fine[ax] <= r.sz.coarse[ax]
\* the grid resolves the fine box at about the requested spacing (within one multigrid step of 32 points)
GridMatchesFine(p, r) == \A ax \in 1..3 :
   LET want == (2 * r.sz.fine[ax] + p.space) \div (2 * p.space) IN
   r.sz.ngrid[ax] = 33 \/ (r.sz.ngrid[ax] - want <= 17 /\ want - r.sz.ngrid[ax] <= 17)
MemoryMatchesGrid(p, r) ==
   /\ \A ax \in 1..3 : r.sz.nsmall[ax] % 32 = 1 /\ r.sz.nsmall[ax] <= r.sz.ngrid[ax] /\ r.sz.nsmall[ax] >= 1
   /\ LET q == r.sz.nsmall[1] * r.sz.nsmall[2] IN q < p.ceil /\ r.sz.nsmall[3] <= (p.ceil - 1) \div q
   /\ (LET g == r.sz.ngrid[1] * r.sz.ngrid[2] IN g < p.ceil /\ r.sz.ngrid[3] <= (p.ceil - 1) \div g)
        => r.sz.nsmall = r.sz.ngrid

Bad(f, p, r) ==
  IF AtomsOf(f) = {} THEN {}                         \* nothing to size: any outcome
  ELSE IF r.err # "" THEN {"NoError"}
  ELSE (IF Encloses(f, r, r.sz.fine) THEN {} ELSE {"FineEncloses"}) \cup
       (IF Encloses(f, r, r.sz.coarse) THEN {} ELSE {"CoarseEncloses"}) \cup
       (IF Centred(f, r) THEN {} ELSE {"Centred"}) \cup
       (IF GridLegal(r) THEN {} ELSE {"GridLegal"}) \cup
       (IF FineLeCoarse(r) THEN {} ELSE {"FineLeCoarse"}) \cup
       (IF GridMatchesFine(p, r) THEN {} ELSE {"GridMatchesFine"}) \cup
       (IF MemoryMatchesGrid(p, r) THEN {} ELSE {"MemoryMatchesGrid"})

Result == [err |-> err, sz |-> sz]
GridUsable == pc = "done" => Bad(file, prm, Result) = {}
\* header / comment lines do not affect the result: same result as the file without them
Strip(f) == SelectSeq(f, LAMBDA s : L(s).k = "atom")

EmitInv == (Emit /\ pc = "done") =>
   PrintT("@" \o ToJson([file |-> file, prm |-> prm, res |-> Result, gotatom |-> gotatom, gothet |-> gothet,
                          bad |-> SetToSeq(Bad(file, prm, Result))]))
================================================================================
