---------------------------------- MODULE MC_Pipeline ----------------------------------
EXTENDS Pipeline
AllOptionSets == [clean : BOOLEAN, assignOnly : BOOLEAN, debump : BOOLEAN, opt : BOOLEAN, pka : BOOLEAN,
                  ligand : BOOLEAN, ffout : BOOLEAN, dropWater : BOOLEAN, pdbOut : BOOLEAN, apbsIn : BOOLEAN]
AllFaults == StageSet \cup {"none"}
================================================================================
