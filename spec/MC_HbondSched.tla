------------------------------- MODULE MC_HbondSched -------------------------------
(* Exhaustive exploration of the scheduler on every small instance: N objects with one polar atom each  *)
(* (type donor / acceptor / both, water or not), any symmetric contact graph among them and to a        *)
(* backbone atom 0 (donor and acceptor), bonds detected with the eligibility rule of the detection      *)
(* loop, two distance patterns.  The environment is free: every call may change the fixed flag of the   *)
(* object it is made on and of its partner, has_atom() may answer either way, try_both may return 0/1.  *)
EXTENDS Naturals, Integers, Sequences, FiniteSets, TLC
CONSTANTS N, Pattern,
          Symmetric   \* TRUE: contacts are mutual (as distances are); FALSE: deviation - detection may see a contact from one side only
VARIABLES inst, fixed, flags, pc, oi, nets, ni, q, sub, res, ci, calls
S == INSTANCE HbondSched
mcvars == <<inst, fixed, flags, pc, oi, nets, ni, q, sub, res, ci, calls>>
Types == {"D", "A", "DA"}
Don(t) == t \in {"D", "DA"}
Acc(t) == t \in {"A", "DA"}
\* the eligibility rule of the detection loop for atom (type t) and a close atom (type u)
Eligible(t, u) == /\ ~(Don(t) /\ ~Acc(t) /\ ~Acc(u))
                  /\ ~(Acc(t) /\ ~Don(t) /\ ~Don(u))
Pairs == {p \in (0..N) \X (0..N) : IF Symmetric THEN p[1] < p[2] /\ p[2] >= 1 ELSE p[1] # p[2]}
Dist(a, b) == IF Pattern = 1 THEN 1 ELSE IF a = 0 \/ b = 0 THEN a + b ELSE (a * b) % 3
TypeOf(ty, k) == IF k = 0 THEN "DA" ELSE ty[k]
SeqOfSet(s) == CHOOSE f \in [1..Cardinality(s) -> s] : \A i, j \in 1..Cardinality(s) : i < j => f[i] < f[j]
HbOf(o, ty, wat, adj) ==
  LET targets == {t \in 0..N : t # o /\ (<<o, t>> \in adj \/ (Symmetric /\ <<t, o>> \in adj)) /\ Eligible(ty[o], TypeOf(ty, t))}
      ts == SeqOfSet(targets)
  IN [k \in 1..Len(ts) |-> [a |-> o + 1, b |-> ts[k] + 1, d |-> Dist(o, ts[k]),
                           al |-> ts[k] # 0, ob |-> ts[k],
                           wa |-> wat[o], wb |-> IF ts[k] = 0 THEN FALSE ELSE wat[ts[k]], na |-> "X", nb |-> "Y"]]
Instances == {[n |-> N, ty |-> ty, hb |-> [o \in 1..N |-> HbOf(o, ty, wat, adj)]] :
                ty \in (IF Symmetric THEN [1..N -> Types] ELSE {[k \in 1..N |-> "DA"]}),
                wat \in (IF Symmetric THEN [1..N -> BOOLEAN] ELSE {[k \in 1..N |-> FALSE]}), adj \in SUBSET Pairs}
\* atom ids: backbone atom = 1, atom of object o = o + 1
Init == /\ inst \in Instances /\ fixed \in [1..N -> BOOLEAN] /\ S!Init0
        /\ flags = [x \in 1..(N + 1) |-> [d |-> Don(TypeOf(inst.ty, x - 1)), a |-> Acc(TypeOf(inst.ty, x - 1))]]
\* what the classes do to the flags: fixing a donor clears its acceptor flag, fixing an acceptor clears its donor flag
FlDon(x) == {<<>>, <<[x |-> x, d |-> TRUE, a |-> FALSE]>>}
FlAcc(x) == {<<>>, <<[x |-> x, d |-> FALSE, a |-> TRUE]>>}
Fx(o, p) == SUBSET ({o, p} \ {0})
Cur == S!H(Head(q))
Done == pc = "done" /\ UNCHANGED mcvars
Next == \/ S!Silent \/ Done
        \/ \E fx \in Fx(oi, 0) : S!NoHbFin(fx, <<>>)
        \/ (q # <<>> /\ \E fx \in Fx(Head(q).o, 0) : (\E fl \in FlDon(Cur.a) : S!P1Don(fx, fl)) \/ (\E fl \in FlAcc(Cur.a) : S!P1Acc(fx, fl)))
        \/ \E r \in BOOLEAN : S!Has1(r) \/ S!Has2(r)
        \/ (q # <<>> /\ \E fx \in Fx(Head(q).o, Cur.ob) : \E rv \in {0, 1} : \E fl \in FlDon(Cur.a) : S!First(rv, fx, fl))
        \/ (q # <<>> /\ \E fx \in Fx(Head(q).o, Cur.ob) : \E fl \in FlAcc(Cur.a) : S!Second(fx, fl))
        \/ (pc = "cmp" /\ ci <= Len(nets[ni]) /\ \E fx \in Fx(nets[ni][ci], 0) : S!Cmp(fx, <<>>))
Spec == Init /\ [][Next]_mcvars
Settled == S!Settled
NetsSane == S!NetsSane
CompleteOnce == S!CompleteOnce
\* the contact graph is symmetric and the eligibility rule is symmetric, so networks are disjoint
Disjoint == \A m1, m2 \in DOMAIN nets : m1 # m2 => S!Range(nets[m1]) \cap S!Range(nets[m2]) = {}
\* calls inside one network come in phase order and in ascending distance inside a phase (history property)
Bounded == Len(calls) <= 4 * N * (N + 1) + 2 * N
Terminates == <>(pc = "done")
FairSpec == Spec /\ WF_mcvars(Next)
======================================================================================
