--------------------------------- MODULE Templates ---------------------------------
(* The topology templates as loaded (AA.xml, NA.xml with PATCHES.xml applied at load time) are the      *)
(* reference of Placement / PlacementTrace: an added atom is judged against the template's own          *)
(* coordinates and bond list.  That judgement presupposes that the two agree with each other: every     *)
(* bond a template lists joins two atoms whose template coordinates are a covalent bond length apart.   *)
(* Bonds: sequence of [h |-> one end is a hydrogen, s |-> one end is S or P, d |-> length in milli-A,   *)
(* pair |-> TRUE for a record that stands for two atoms of one template that are NOT listed as bonded   *)
(* (only pairs closer than 1 A are recorded): two atoms of a template never share a position.           *)
(* Bounds: X-H 0.90..1.15 A (S-H up to 1.40), heavy pairs 1.15..1.65 A (with S or P up to 2.10).        *)
EXTENDS Naturals, Sequences, TLC, Json, IOUtils
Bonds == JsonDeserialize(IOEnv.TRACE_FILE)
VARIABLE x
Lo(b) == IF b.h THEN 900 ELSE 1150
Hi(b) == IF b.h THEN (IF b.s THEN 1400 ELSE 1150) ELSE (IF b.s THEN 2100 ELSE 1650)
Chemical(b) == IF b.pair THEN b.d >= 850 ELSE Lo(b) <= b.d /\ b.d <= Hi(b)
Bad == {k \in 1..Len(Bonds) : ~Chemical(Bonds[k])}
Init == x = 0
Next == UNCHANGED x
Spec == Init /\ [][Next]_x
Report == TLCGet("stats").diameter >= 0 /\ PrintT(<<"BAD", Bad>>)
====================================================================================
