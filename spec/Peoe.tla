------------------------------------ MODULE Peoe ------------------------------------
(***************************************************************************)
(* Partial equalisation of orbital electronegativity (property C16,        *)
(* conservation clause).  Code anchor: ligand/peoe.equilibrate: in every   *)
(* cycle each bonded pair exchanges an amount antisymmetrically (what one  *)
(* atom gains the other loses; the size depends on electronegativities and *)
(* damping and is left nondeterministic here), and every atom receives     *)
(* 1/NumCycles of its (scaled) formal charge; after the last cycle all     *)
(* charges are multiplied by the scale.  Charges are integers in units     *)
(* where an atom's per-cycle share of its formal charge is share[a].       *)
(* SkipUnbonded is a deviation: atoms without bonds are left out of the    *)
(* cycle loops altogether (they then never receive their share).           *)
(***************************************************************************)
EXTENDS Naturals, Integers, Sequences, FiniteSets, TLC

CONSTANTS NAtoms, NumCycles, Transfers,   \* Transfers: set of integers a pair may exchange in one cycle
          SkipUnbonded
Atoms == 1..NAtoms
PairsOf == {<<a, b>> \in Atoms \X Atoms : a < b}

VARIABLES bonds,   \* set of bonded pairs (chosen in Init: every graph)
          share,   \* atom -> per-cycle share of its formal charge
          charge,  \* atom -> running charge
          cycle
vars == <<bonds, share, charge, cycle>>

Bonded(a) == {b \in Atoms : <<a, b>> \in bonds \/ <<b, a>> \in bonds}
Init == /\ bonds \in SUBSET PairsOf /\ share \in [Atoms -> {-1, 0, 1}]
        /\ charge = [a \in Atoms |-> 0] /\ cycle = 0
\* one PEOE cycle: x[p] flows from the second to the first atom of pair p
Cycle == /\ cycle < NumCycles
         /\ \E x \in [bonds -> Transfers] :
              charge' = [a \in Atoms |->
                 IF SkipUnbonded /\ Bonded(a) = {} THEN charge[a]
                 ELSE charge[a] + share[a]
                      + (LET inn == {p \in bonds : p[1] = a}  out == {p \in bonds : p[2] = a}
                             Sum(S) == LET RECURSIVE s(_) s(T) == IF T = {} THEN 0 ELSE LET e == CHOOSE e \in T : TRUE IN x[e] + s(T \ {e}) IN s(S)
                         IN Sum(inn) - Sum(out))]
         /\ cycle' = cycle + 1 /\ UNCHANGED <<bonds, share>>
Next == Cycle
Spec == Init /\ [][Next]_vars

RECURSIVE SumOver(_, _)
SumOver(f, S) == IF S = {} THEN 0 ELSE LET e == CHOOSE e \in S : TRUE IN f[e] + SumOver(f, S \ {e})
\* connected components of the bond graph
RECURSIVE Reach(_, _)
Reach(S, n) == IF n = 0 THEN S ELSE Reach(S \cup UNION {Bonded(a) : a \in S}, n - 1)
Component(a) == Reach({a}, NAtoms)
\* after k cycles every connected component carries k times the sum of its atoms' shares;
\* at the end (k = NumCycles) that is the sum of the formal charges: equilibration only redistributes
ComponentSumInvariant == \A a \in Atoms : SumOver(charge, Component(a)) = cycle * SumOver(share, Component(a))
================================================================================
