---------------------------------- MODULE Pipeline2 ----------------------------------
(***************************************************************************)
(* Self-composition of Pipeline for property C09: two runs on the same     *)
(* input whose options differ only in formatting / naming options          *)
(* (--whitespace, --keep-chain, --include-header, --pdb-output,            *)
(* --apbs-input, --ffout) step through the stages together.  The value of  *)
(* each abstract part of the model is symbolic: the sequence of            *)
(* <<stage, options the stage reads>> that wrote it.  NonInterference:     *)
(* coordinates, charges, radii and atom order are equal in both runs at    *)
(* every step; names differ at most by NameScheme.                         *)
(* Reads(s) is the table this module adds: the options a stage may read.   *)
(***************************************************************************)
EXTENDS Naturals, Sequences, FiniteSets, TLC

CONSTANTS BaseOptionSets,   \* option records of the first run
          FormatSubsets     \* sets of formatting options toggled in the second run

Formatting == {"whitespace", "keepChain", "includeHeader", "pdbOut", "apbsIn", "ffout"}
Toggle(o, fs) == [k \in DOMAIN o |-> IF k \in fs THEN ~o[k] ELSE o[k]]

VARIABLES opts1, opts2, done1, done2, m1, m2
vars == <<opts1, opts2, done1, done2, m1, m2>>

P == INSTANCE Pipeline WITH OptionSets <- {}, InitialFs <- {}, FaultStages <- {},
                            opts <- opts1, fs0 <- "absent", fault <- "none", done <- done1,
                            changed <- [p \in {"heavy", "coords", "order", "numbers", "names", "pqr"} |-> {}],
                            pqr <- "untouched", result <- "running"
StageSet == P!StageSet
Enabled(s, o) == P!Enabled(s, o)
After(s) == P!After(s)
Writes(s, o) == P!Writes(s, o)

\* options a stage may read (besides the ones that enable it)
Reads(s) ==
  CASE s = "Transform"     -> {"clean", "assignOnly", "debump", "opt", "ffout"}
    [] s = "DropWater"     -> {"dropWater"}
    [] s = "SetupMolecule" -> {"ligand", "dropWater"}
    [] s \in {"OptInit", "Optimize"} -> {"opt"}
    [] s \in {"RunPka", "ApplyPka"} -> {"pka"}
    [] s = "NameScheme"    -> {"ffout"}
    [] s = "Header"        -> {"includeHeader", "ffout", "pka"}
    [] s \in {"RenderLines", "CleanLines"} -> {"keepChain"}
    [] s = "PrintPqr"      -> {"whitespace"}
    [] s = "PrintPdb"      -> {"pdbOut", "keepChain"}
    [] s = "DumpApbs"      -> {"apbsIn"}
    [] OTHER -> {}
View(o, s) == [k \in Reads(s) |-> o[k]]

Parts == {"heavy", "coords", "order", "numbers", "names"}
Ready(s, o, d) == s \notin d /\ Enabled(s, o) /\ \A x \in After(s) : x \in d \/ ~Enabled(x, o)
Apply(m, s, o) == [p \in Parts |-> IF p \in Writes(s, o) THEN Append(m[p], <<s, View(o, s)>>) ELSE m[p]]

Init == /\ opts1 \in BaseOptionSets
        /\ \E fs \in FormatSubsets : opts2 = Toggle(opts1, fs)
        /\ done1 = {} /\ done2 = {} /\ m1 = [p \in Parts |-> <<>>] /\ m2 = [p \in Parts |-> <<>>]
\* lock-step: a stage ready in both runs is taken by both; a stage enabled in one run only is taken alone
Both(s) == /\ Ready(s, opts1, done1) /\ Ready(s, opts2, done2)
           /\ done1' = done1 \cup {s} /\ done2' = done2 \cup {s}
           /\ m1' = Apply(m1, s, opts1) /\ m2' = Apply(m2, s, opts2) /\ UNCHANGED <<opts1, opts2>>
Only1(s) == /\ Ready(s, opts1, done1) /\ ~Enabled(s, opts2)
            /\ done1' = done1 \cup {s} /\ m1' = Apply(m1, s, opts1) /\ UNCHANGED <<opts1, opts2, done2, m2>>
Only2(s) == /\ Ready(s, opts2, done2) /\ ~Enabled(s, opts1)
            /\ done2' = done2 \cup {s} /\ m2' = Apply(m2, s, opts2) /\ UNCHANGED <<opts1, opts2, done1, m1>>
Next == \E s \in StageSet : Both(s) \/ Only1(s) \/ Only2(s)
Spec == Init /\ [][Next]_vars

Aligned == done1 \cap P!ComputeStages = done2 \cap P!ComputeStages
NonInterference == Aligned => \A p \in {"heavy", "coords", "order", "numbers"} : m1[p] = m2[p]
StripNaming(seq) == SelectSeq(seq, LAMBDA e : e[1] # "NameScheme")
NamesDifferOnlyByScheme == Aligned => StripNaming(m1["names"]) = StripNaming(m2["names"])
================================================================================
