---------------------------------- MODULE SSBridge ----------------------------------
(***************************************************************************)
(* Disulfide detection (property C13).  Code anchor:                       *)
(* Biomolecule.update_ss_bridges: the pair scan over the SG atoms in       *)
(* residue order with its shortcut "skip atoms that already have a         *)
(* partner", then the per-atom resolution (exactly one partner -> bonded,  *)
(* CYX patch; more -> warning only).                                       *)
(* The geometry enters as the symmetric relation Close (SG-SG distance     *)
(* below the 2.5 A limit) on cysteines 1..N in file order.                 *)
(***************************************************************************)
EXTENDS Naturals, Sequences, FiniteSets, TLC, Json, SequencesExt

CONSTANTS N,      \* number of cysteines
          Emit

Cys == 1..N
Pairs == {<<i, j>> \in Cys \X Cys : i < j}

VARIABLES close,     \* set of pairs <<i,j>>, i<j, within the limit (chosen in Init)
          i,         \* outer loop index of the scan
          partners,  \* sg_partners: cysteine -> sequence of partners
          bonded,    \* cysteine -> partner it is bonded to (0 = not bonded)
          pc
vars == <<close, i, partners, bonded, pc>>

Close(a, b) == <<a, b>> \in close \/ <<b, a>> \in close

\* one iteration of the outer loop: "for partner in sg_partners" with the continue shortcut.
\* state of the fold: the whole partners function (the loop appends to both lists)
ScanStep(ps, a, b) ==
  IF a = b \/ ps[a] # <<>> THEN ps
  ELSE IF Close(a, b) THEN [ps EXCEPT ![a] = Append(@, b), ![b] = Append(@, a)] ELSE ps
ScanAtom(a, ps) == FoldLeft(LAMBDA acc, b : ScanStep(acc, a, b), ps, [k \in 1..N |-> k])

Init == /\ close \in SUBSET Pairs
        /\ i = 1 /\ partners = [c \in Cys |-> <<>>] /\ bonded = [c \in Cys |-> 0] /\ pc = "scan"
Scan == /\ pc = "scan" /\ i <= N
        /\ partners' = ScanAtom(i, partners) /\ i' = i + 1
        /\ UNCHANGED <<close, bonded, pc>>
EndScan == pc = "scan" /\ i = N + 1 /\ pc' = "resolve" /\ i' = 1 /\ UNCHANGED <<close, partners, bonded>>
Resolve == /\ pc = "resolve" /\ i <= N
           /\ bonded' = [bonded EXCEPT ![i] = IF Len(partners[i]) = 1 THEN partners[i][1] ELSE 0]
           /\ i' = i + 1 /\ UNCHANGED <<close, partners, pc>>
Done == pc = "resolve" /\ i = N + 1 /\ pc' = "done" /\ UNCHANGED <<close, i, partners, bonded>>
Next == Scan \/ EndScan \/ Resolve \/ Done
Spec == Init /\ [][Next]_vars

(***************************************************************************)
(* The property for a closeness relation cl and a result b (cysteine ->    *)
(* partner or 0): the model's, or one observed from the real code.         *)
(***************************************************************************)
Nbrs(cl, a) == {b \in Cys : b # a /\ (<<a, b>> \in cl \/ <<b, a>> \in cl)}
Exclusive(cl, a, b) == Nbrs(cl, a) = {b} /\ Nbrs(cl, b) = {a}
Bad(cl, b) ==
  {<<"ExclusivePairBonded", p[1], p[2]>> : p \in {q \in Pairs : Exclusive(cl, q[1], q[2]) /\ ~(b[q[1]] = q[2] /\ b[q[2]] = q[1])}}
  \cup {<<"IsolatedFree", a, 0>> : a \in {c \in Cys : Nbrs(cl, c) = {} /\ b[c] # 0}}
Symmetric == pc = "done" => Bad(close, bonded) = {}
EmitInv == (Emit /\ pc = "done") => PrintT("@" \o ToJson([close |-> SetToSeq(close), bonded |-> bonded]))
================================================================================
