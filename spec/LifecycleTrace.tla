-------------------------------- MODULE LifecycleTrace --------------------------------
(***************************************************************************)
(* Trace validation for Lifecycle: one trace per real run.                 *)
(* T.ev: the primitive operations recorded by the wrappers on              *)
(*   Residue.add_atom / remove_atom / rename_atom, each with the pipeline  *)
(*   stage it happened in: [e, a, name, stage, hv].                        *)
(* T.fin: what the run returned:                                           *)
(*   alive   - identities of the atoms of the returned biomolecule         *)
(*   matched / missed - identities in the lists returned by the run        *)
(*   written - identities of the atoms the PQR lines correspond to         *)
(*   reported - atoms whose deletion was logged ("Extra atom ... Deleted") *)
(*   recognised - input heavy atoms that belong to a recognised residue    *)
(*   fivep   - atoms of a 5'-terminal phosphate                            *)
(*   residues - per residue [ids, full, check, want (topology names),      *)
(*              oneof (groups of alternative names: exactly one present)]  *)
(* Printed:  OP (operation illegal in its stage: who created / deleted     *)
(* what), and at the end LEDGER (drift), LOST, DUPNAME, TEMP, PARTITION,   *)
(* WRITTEN, TOPOLOGY, SURPLUS, INPUT.                                      *)
(***************************************************************************)
EXTENDS Naturals, Sequences, FiniteSets, TLC, Json, IOUtils, SequencesExt
Traces == JsonDeserialize(IOEnv.TRACE_FILE)
VARIABLES alive, name, origin, heavy, gone, resOf, heir, tid, l
T == Traces[tid]
L == INSTANCE Lifecycle WITH N <- 0
Say(c, msg) == IF c THEN TRUE ELSE PrintT(msg)
Ev == T.ev[l]
TInit == /\ tid \in 1..Len(Traces) /\ l = 1
         /\ alive = {} /\ name = [a \in 1..Traces[tid].n |-> ""] /\ origin = [a \in 1..Traces[tid].n |-> "none"]
         /\ heavy = [a \in 1..Traces[tid].n |-> FALSE] /\ gone = <<>>
         /\ resOf = [a \in 1..Traces[tid].n |-> ""] /\ heir = [a \in 1..Traces[tid].n |-> a]
Step ==
  /\ l <= Len(T.ev) /\ l' = l + 1 /\ UNCHANGED tid
  /\ CASE Ev.e = "new" ->
            /\ Say(L!MayCreate(Ev.stage, IF origin[Ev.a] = "none" THEN L!OriginIn(Ev.stage, Ev.name) ELSE origin[Ev.a]),
                   <<"OP", T.id, l, "create", Ev.stage, L!OriginIn(Ev.stage, Ev.name), Ev.name>>)
            /\ IF Ev.a \in alive THEN Say(FALSE, <<"OP", T.id, l, "create-twice", Ev.stage, origin[Ev.a], Ev.name>>) /\ UNCHANGED <<alive, name, origin, heavy, gone, resOf, heir>>
               ELSE L!Create(Ev.a, Ev.name, Ev.stage, Ev.hv, Ev.res)
       [] Ev.e = "del" ->
            /\ Say(L!MayDelete(Ev.stage, origin[Ev.a], heavy[Ev.a], L!HasFlipCopy(Ev.a)), <<"OP", T.id, l, "delete", Ev.stage, origin[Ev.a], name[Ev.a]>>)
            /\ IF Ev.a \in alive THEN L!Delete(Ev.a, Ev.stage) ELSE UNCHANGED <<alive, name, origin, heavy, gone, resOf, heir>>
       [] Ev.e = "rename" ->
            IF Ev.a \in alive THEN L!Rename(Ev.a, Ev.name) ELSE UNCHANGED <<alive, name, origin, heavy, gone, resOf, heir>>
TSpec == TInit /\ [][Step]_<<alive, name, origin, heavy, gone, resOf, heir, tid, l>>

F == T.fin
Names(ids) == [k \in 1..Len(ids) |-> name[ids[k]]]
AtEnd == (l = Len(T.ev) + 1) =>
  /\ Say(alive = ToSet(F.alive), <<"LEDGER", T.id, Cardinality(alive), Len(F.alive)>>)
  \* every input heavy atom of a recognised residue is still there, or its deletion was reported, or it is the 5' phosphate
  /\ \A k \in 1..Len(F.recognised) :
        LET a == F.recognised[k] IN
        Say(a \in ToSet(F.alive) \/ heir[a] \in ToSet(F.alive) \/ heir[heir[a]] \in ToSet(F.alive)
            \/ a \in ToSet(F.reported) \/ a \in ToSet(F.fivep), <<"LOST", T.id, a, name[a]>>)
  /\ \A k \in 1..Len(F.residues) :
        LET r == F.residues[k]  nm == Names(r.ids) IN
        /\ Say(Cardinality(ToSet(nm)) = Len(nm), <<"DUPNAME", T.id, k>>)
        /\ Say(\A i \in 1..Len(nm) : ~L!IsTempName(nm[i]), <<"TEMP", T.id, k>>)
        /\ LET alt == UNION {ToSet(r.oneof[g]) : g \in 1..Len(r.oneof)} IN
           Say(~(r.full /\ r.check)
               \/ (ToSet(nm) \ alt = ToSet(r.want) \ alt
                   /\ \A g \in 1..Len(r.oneof) : Cardinality(ToSet(nm) \cap ToSet(r.oneof[g])) = 1), <<"TOPOLOGY", T.id, k>>)
        \* parameterised or not: no atom beyond the atom set of the residue's final-state topology (nothing invented)
        /\ LET alt == UNION {ToSet(r.oneof[g]) : g \in 1..Len(r.oneof)} IN
           Say(~r.check
               \/ (ToSet(nm) \subseteq ToSet(r.want) \cup alt
                   /\ \A g \in 1..Len(r.oneof) : Cardinality(ToSet(nm) \cap ToSet(r.oneof[g])) <= 1), <<"SURPLUS", T.id, k>>)
  \* as many heavy atoms entered the model at set-up as the input has distinct heavy coordinate records
  /\ LET heirs == {heir[g] : g \in {x \in DOMAIN heir : heir[x] # x}}
         entered == {a \in DOMAIN origin : origin[a] = "input" /\ heavy[a] /\ a \notin heirs}
     IN Say(Cardinality(entered) = F.inputheavy, <<"INPUT", T.id, Cardinality(entered), F.inputheavy>>)
  /\ Say(ToSet(F.matched) \cap ToSet(F.missed) = {} /\ ToSet(F.matched) \cup ToSet(F.missed) = ToSet(F.alive)
         /\ Len(F.matched) + Len(F.missed) = Len(F.alive), <<"PARTITION", T.id, Len(F.matched), Len(F.missed), Len(F.alive)>>)
  \* whatever else is wrong with the two lists: no atom of the final model is in neither of them
  /\ Say(ToSet(F.alive) \subseteq ToSet(F.matched) \cup ToSet(F.missed),
         <<"UNACCOUNTED", T.id, Cardinality(ToSet(F.alive) \ (ToSet(F.matched) \cup ToSet(F.missed)))>>)
  /\ Say(F.written = F.matched, <<"WRITTEN", T.id, Len(F.written), Len(F.matched)>>)
  /\ PrintT(<<"END", T.id>>)
================================================================================
