------------------------------ MODULE HbondSchedTrace ------------------------------
(* Trace validation for HbondSched: one trace = one real call of HydrogenRoutines.optimize_hydrogens.   *)
(* Recorded by run-time wrappers (vlib/tracer.py, group "hbsched"): the potential bonds of every object *)
(* as the detection loop left them, the truth value of residue.fixed of every object before the first   *)
(* call, and every call optimize_hydrogens itself makes - finalize ("fin"), try_donor ("don"),          *)
(* try_acceptor ("acc"), try_both ("both", r = return value), complete ("cmp"), residue.has_atom        *)
(* ("has", r = answer) - each with the objects whose fixed flag has another truth value afterwards (fx). *)
(* Every scheduler decision is a function of logged values, so the search is linear in the trace.       *)
(* Printed per trace: <<"T", id, accepted, furthest event, schedule clauses violated>>.                 *)
EXTENDS Naturals, Integers, Sequences, FiniteSets, TLC, Json, IOUtils
Traces == JsonDeserialize(IOEnv.TRACE_FILE)
VARIABLES inst, fixed, flags, pc, oi, nets, ni, q, sub, res, ci, calls, tid, l
S == INSTANCE HbondSched
svars == <<inst, fixed, flags, pc, oi, nets, ni, q, sub, res, ci, calls>>
T == Traces[tid]
Ev(k) == T.ev[k]
Has(e) == l <= Len(T.ev) /\ Ev(l).e = e
FxSet == {Ev(l).fx[k] : k \in DOMAIN Ev(l).fx}
Fl == [k \in DOMAIN Ev(l).fl |-> [x |-> Ev(l).fl[k][1], d |-> Ev(l).fl[k][2], a |-> Ev(l).fl[k][3]]]
Last(s) == s[Len(s)]
Matches == Last(calls') = [e |-> Ev(l).e, o |-> Ev(l).o, a |-> Ev(l).a, b |-> Ev(l).b, p |-> Ev(l).p]

TInit == /\ tid \in 1..Len(Traces) /\ l = 1
         /\ inst = [n |-> Traces[tid].n, hb |-> Traces[tid].hb]
         /\ fixed = [o \in 1..Traces[tid].n |-> Traces[tid].fixed0[o]]
         /\ flags = [x \in 1..Len(Traces[tid].fl0) |-> [d |-> Traces[tid].fl0[x][1], a |-> Traces[tid].fl0[x][2]]]
         /\ S!Init0
TFin == Has("fin") /\ S!NoHbFin(FxSet, Fl) /\ Matches
TDon == Has("don") /\ S!P1Don(FxSet, Fl) /\ Matches
TAcc == Has("acc") /\ S!P1Acc(FxSet, Fl) /\ Matches
THas1 == /\ Has("has") /\ sub = "has1" /\ q # <<>> /\ Ev(l).o = Head(q).o /\ Ev(l).n = S!H(Head(q)).na /\ S!Has1(Ev(l).r)
THas2 == /\ Has("has") /\ sub = "has2" /\ q # <<>> /\ Ev(l).o = S!H(Head(q)).ob /\ Ev(l).n = S!H(Head(q)).nb /\ S!Has2(Ev(l).r)
TFirst == Has("both") /\ S!First(Ev(l).r, FxSet, Fl) /\ Matches
TSecond == Has("both") /\ S!Second(FxSet, Fl) /\ Matches
TCmp == Has("cmp") /\ S!Cmp(FxSet, Fl) /\ Matches
TNext == /\ \/ (TFin \/ TDon \/ TAcc \/ THas1 \/ THas2 \/ TFirst \/ TSecond \/ TCmp) /\ l' = l + 1
            \/ S!Silent /\ UNCHANGED l
         /\ UNCHANGED tid
TSpec == TInit /\ [][TNext]_<<svars, tid, l>>

\* registers (single worker): tid -> furthest event; 100000 + tid -> the model finished exactly when the trace did;
\* 200000 + tid -> a schedule clause failed on the way
Max(a, b) == IF a > b THEN a ELSE b
Progress == /\ TLCSet(tid, Max(TLCGet(tid), l))
            /\ (pc = "done" /\ l = Len(T.ev) + 1) => TLCSet(100000 + tid, 1)
            /\ (~S!Settled \/ ~S!NetsSane \/ ~S!CompleteOnce) => TLCSet(200000 + tid, 1)
Verdicts == \A t \in 1..Len(Traces) :
              PrintT(<<"T", Traces[t].id, TLCGet(t) = Len(Traces[t].ev) + 1 /\ TLCGet(100000 + t) = 1, TLCGet(t), TLCGet(200000 + t)>>)
ASSUME \A t \in 1..Len(Traces) : TLCSet(t, 0) /\ TLCSet(100000 + t, 0) /\ TLCSet(200000 + t, 0)
======================================================================================
