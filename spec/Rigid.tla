------------------------------------ MODULE Rigid ------------------------------------
(***************************************************************************)
(* Contract of rigid-body placement in exact integer arithmetic (C15).     *)
(* Code anchors: quatfit.find_coordinates (qfit / qtrfit / jacobi / q2mat  *)
(* / qtransform), used by Biomolecule.add_hydrogens / repair_heavy and the *)
(* optimisation classes to place an atom from template reference atoms.    *)
(*                                                                         *)
(* An integer quaternion q = <<a,b,c,d>> # 0 gives the proper rotation     *)
(* R = M(q)/N(q).  A placement case is: template points P (milli-A         *)
(* integers), the template position A of the atom to place, the quaternion *)
(* and a translation t.  The structure atoms are R P + t; the contract     *)
(* says the placed atom is R A + t.  The state machine builds the case     *)
(* step by step (Rotate: compute M P and M A; Place: the contract).        *)
(***************************************************************************)
EXTENDS Naturals, Integers, Sequences, FiniteSets, TLC, Json

CONSTANTS QRange,     \* quaternion entries explored, e.g. -2..2
          Templates,  \* sequence of [pts : Seq(<<x,y,z>>), atom : <<x,y,z>>]  (milli-Angstrom)
          NShifts,    \* number of translations the harness applies (ids 1..NShifts)
          Emit

N(q) == q[1]*q[1] + q[2]*q[2] + q[3]*q[3] + q[4]*q[4]
M(q) == LET a == q[1] b == q[2] c == q[3] d == q[4] IN
  << <<a*a + b*b - c*c - d*d, 2*(b*c - a*d),         2*(b*d + a*c)>>,
     <<2*(b*c + a*d),         a*a - b*b + c*c - d*d, 2*(c*d - a*b)>>,
     <<2*(b*d - a*c),         2*(c*d + a*b),         a*a - b*b - c*c + d*d>> >>
Dot(u, v) == u[1]*v[1] + u[2]*v[2] + u[3]*v[3]
MulV(m, v) == <<Dot(m[1], v), Dot(m[2], v), Dot(m[3], v)>>
Col(m, j) == <<m[1][j], m[2][j], m[3][j]>>
Det(m) == m[1][1]*(m[2][2]*m[3][3] - m[2][3]*m[3][2]) - m[1][2]*(m[2][1]*m[3][3] - m[2][3]*m[3][1])
          + m[1][3]*(m[2][1]*m[3][2] - m[2][2]*m[3][1])

\* one representative per rotation: q and -q give the same matrix; first non-zero entry positive
Canonical(q) == \E k \in 1..4 : q[k] > 0 /\ \A j \in 1..(k-1) : q[j] = 0
Quats == {q \in QRange \X QRange \X QRange \X QRange : Canonical(q)}

VARIABLES q, tpl, shift, mp, ma, pc
vars == <<q, tpl, shift, mp, ma, pc>>
Init == /\ q \in Quats /\ tpl \in 1..Len(Templates) /\ shift \in 1..NShifts
        /\ mp = <<>> /\ ma = <<>> /\ pc = "rotate"
Rotate == /\ pc = "rotate"
          /\ mp' = [i \in 1..Len(Templates[tpl].pts) |-> MulV(M(q), Templates[tpl].pts[i])]   \* N x structure atoms
          /\ pc' = "place" /\ UNCHANGED <<q, tpl, shift, ma>>
Place  == /\ pc = "place"
          /\ ma' = MulV(M(q), Templates[tpl].atom)                                             \* N x placed atom
          /\ pc' = "done" /\ UNCHANGED <<q, tpl, shift, mp>>
Next == Rotate \/ Place
Spec == Init /\ [][Next]_vars

\* sanity of the contract itself: M(q)/N(q) is a proper rotation
Proper == /\ \A i, j \in 1..3 : Dot(M(q)[i], M(q)[j]) = (IF i = j THEN N(q)*N(q) ELSE 0)
          /\ \A i, j \in 1..3 : Dot(Col(M(q), i), Col(M(q), j)) = (IF i = j THEN N(q)*N(q) ELSE 0)
          /\ Det(M(q)) = N(q)*N(q)*N(q)

(* Observed placement obs (micro-Angstrom, translation removed) against the contract:           *)
(* |N obs - 1000 M A| <= Tol N  per axis                                                        *)
Abs(v) == IF v < 0 THEN -v ELSE v
Within(qq, mA, obs, tol) == \A ax \in 1..3 : Abs(N(qq) * obs[ax] - 1000 * mA[ax]) <= tol * N(qq)

EmitInv == (Emit /\ pc = "done") => PrintT("@" \o ToJson([q |-> q, n |-> N(q), tpl |-> tpl, shift |-> shift, mp |-> mp, ma |-> ma]))
================================================================================
