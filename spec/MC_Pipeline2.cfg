SPECIFICATION Spec
CONSTANTS
  BaseOptionSets <- Bases
  FormatSubsets <- AllFormatSubsets
INVARIANT NonInterference
INVARIANT NamesDifferOnlyByScheme
