-------------------------------- MODULE ForceFieldTrace --------------------------------
(***************************************************************************)
(* Trace validation for ForceField.  One trace = one force field (built-in *)
(* or a user-supplied DAT/names pair):                                     *)
(*  T.rows, T.sections  - the DAT lines and .names sections read by the    *)
(*      harness's own readers (regex match sets by Python's re);           *)
(*  T.realmap           - the map the real Forcefield object holds after   *)
(*      loading: sequence of [res, atom, q, r, nres, natom];               *)
(*  T.assign            - one record per atom of every traced pipeline run *)
(*      under this force field: [key (state-qualified residue key the run  *)
(*      used), want (key expected from the generator's ground truth, ""    *)
(*      if not asserted), atom, q, r (text as written; "" if not written), *)
(*      missed (reported as unassigned)].                                  *)
(* The spec's actions compute ffmap from rows and sections; then           *)
(*   MAP    <<res, atom>>  real map entry differs from the spec's map      *)
(*   KEY / PARAM / MISS / GHOST  per assign record (see below)             *)
(***************************************************************************)
EXTENDS Naturals, Sequences, FiniteSets, TLC, Json, IOUtils, SequencesExt
T == JsonDeserialize(IOEnv.TRACE_FILE)          \* one force field per TLC run (constants of the instance below)
TRows == T.rows
TSections == T.sections
VARIABLES ffmap, i, j, err, tid, phase
F == INSTANCE ForceField WITH Rows <- TRows, Sections <- TSections
Say(c, msg) == IF c THEN TRUE ELSE PrintT(msg)
TInit == tid = 1 /\ ffmap = <<>> /\ i = 1 /\ j = 1 /\ err = "" /\ phase = "load"
Load == phase = "load" /\ ~F!Loaded /\ F!Next /\ UNCHANGED <<tid, phase>>
RowOf(res, atom) == F!Lookup(ffmap, res, atom)
\* the real map must equal the spec's map, entry by entry, in both directions
CheckMap ==
  /\ phase = "load" /\ F!Loaded /\ phase' = "assign" /\ UNCHANGED <<ffmap, i, j, err, tid>>
  /\ Say((err # "") = (T.realerr # ""), <<"LOADERR", T.id, err, T.realerr>>)
  /\ \A n \in 1..Len(T.realmap) :
       LET e == T.realmap[n]  rid == RowOf(e.res, e.atom) IN
       Say(rid # 0 /\ T.rows[rid].q = e.q /\ T.rows[rid].r = e.r /\ T.rows[rid].res = e.nres /\ T.rows[rid].atom = e.natom,
           <<"MAP", T.id, e.res, e.atom>>)
  /\ Say(FoldLeft(LAMBDA acc, res : acc + Cardinality(DOMAIN ffmap[res]), 0, SetToSeq(DOMAIN ffmap)) = Len(T.realmap) \/ err # "",
         <<"MAPSIZE", T.id, Len(T.realmap)>>)
\* every atom of every run
CheckAssign ==
  /\ phase = "assign" /\ phase' = "done" /\ UNCHANGED <<ffmap, i, j, err, tid>>
  /\ \A n \in 1..Len(T.assign) :
       LET a == T.assign[n]  rid == RowOf(a.key, a.atom) IN
       /\ Say(a.want = "" \/ a.want = a.key, <<"KEY", T.id, n>>)                      \* KeyIsStateName
       /\ Say(rid = 0 \/ a.q = "" \/ (T.rows[rid].q = a.q /\ T.rows[rid].r = a.r), <<"PARAM", T.id, n>>)   \* ParamsAreTableRow
       /\ Say(rid # 0 \/ (a.q = "" /\ a.missed), <<"MISS", T.id, n>>)                 \* MissOmittedAndReported
       /\ Say(rid = 0 \/ a.q # "" \/ a.lig, <<"UNWRITTEN", T.id, n>>)                 \* an atom with a row is written
TNext == Load \/ CheckMap \/ CheckAssign
TSpec == TInit /\ [][TNext]_<<ffmap, i, j, err, tid, phase>>
AtEnd == phase = "done" => PrintT(<<"END", T.id, Cardinality(DOMAIN ffmap)>>)
NoInventedParams == F!NoInventedParams
LaterRowWins == F!LaterRowWins
================================================================================
