---------------------------------- MODULE Pipeline ----------------------------------
(***************************************************************************)
(* The stage machine of one pdb2pqr run (main.main_driver / non_trivial /  *)
(* print_pqr / print_pdb / io.dump_apbs) with faults.  Serves C12 (loud    *)
(* failure leaves the output path untouched; the PQR is written only       *)
(* complete, after all computation), C04 (stage clause: input heavy atoms  *)
(* move only in debumping / optimisation and never under --clean,          *)
(* --assign-only or --nodebump --noopt) and C09 (ordering clause: once     *)
(* parameters and charges are final no later stage changes coordinates,    *)
(* charges, radii or the atom order; names change only in NameScheme).     *)
(*                                                                         *)
(* One action per stage (Run).  A stage is enabled by the options          *)
(* (Enabled) once the stages it depends on are done (After); disabled      *)
(* stages count as done, so harmless re-ordering of independent stages is  *)
(* accepted.  Fail(stage) is the stage raising.  What a stage may write is *)
(* Writes[stage] over the abstract parts                                   *)
(*   "heavy"   coordinates of heavy atoms supplied in the input            *)
(*   "coords"  coordinates of any atom          "order"  atom order        *)
(*   "numbers" charge and radius of any atom    "names"  atom/residue names*)
(*   "pqr"     the file at the output PQR path                             *)
(***************************************************************************)
EXTENDS Naturals, Sequences, FiniteSets, TLC

CONSTANTS OptionSets,   \* set of option records explored
          InitialFs,    \* initial states of the output path explored: subset of {"absent", "old"}
          FaultStages   \* stages at which a fault may be injected (plus "none")

Stages == <<"Transform", "CheckFiles", "CheckOptions", "GetDefinitions", "ReadMolecule", "DropWater",
            "SetupMolecule", "SetTermini", "UpdateBonds", "CleanLines", "LoadFF", "SetHip", "Repair", "UpdateSS",
            "Debump", "RemoveH", "RunPka", "ApplyPka", "AddH", "Debump2", "OptInit", "Optimize", "Cleanup",
            "SetStates", "ApplyFF", "Ligand", "ChargeCheck", "NameScheme", "Header", "RenderLines", "PrintPqr",
            "PrintPdb", "DumpApbs">>
StageSet == {Stages[i] : i \in 1..Len(Stages)}

\* option record fields: clean, assignOnly, debump, opt (as given on the command line), pka, ligand, ffout,
\* dropWater, pdbOut, apbsIn
EffDebump(o) == o.debump /\ ~o.clean /\ ~o.assignOnly         \* transform_arguments
EffOpt(o)    == o.opt /\ ~o.clean /\ ~o.assignOnly
Full(o)      == ~o.clean /\ ~o.assignOnly

Enabled(s, o) ==
  CASE s \in {"Transform", "CheckFiles", "CheckOptions", "GetDefinitions", "ReadMolecule", "SetupMolecule",
              "SetTermini", "UpdateBonds", "PrintPqr"} -> TRUE
    [] s = "DropWater"   -> o.dropWater
    [] s = "CleanLines"  -> o.clean
    [] s \in {"LoadFF", "SetStates", "ApplyFF", "ChargeCheck", "Header", "RenderLines"} -> ~o.clean
    [] s = "SetHip"      -> o.assignOnly /\ ~o.clean
    [] s \in {"Repair", "UpdateSS", "AddH", "OptInit", "Optimize", "Cleanup"} -> Full(o)
    [] s \in {"Debump", "Debump2"} -> EffDebump(o)
    [] s \in {"RemoveH", "RunPka", "ApplyPka"} -> Full(o) /\ o.pka
    [] s = "Ligand"      -> o.ligand /\ ~o.clean
    [] s = "NameScheme"  -> o.ffout /\ ~o.clean
    [] s = "PrintPdb"    -> o.pdbOut
    [] s = "DumpApbs"    -> o.apbsIn

\* stages that must be finished (or disabled) before s may start
After(s) ==
  CASE s = "Transform" -> {} [] s = "GetDefinitions" -> {}
    [] s \in {"CheckFiles", "CheckOptions"} -> {"Transform"}
    [] s = "ReadMolecule"  -> {"CheckFiles", "CheckOptions"}
    [] s = "DropWater"     -> {"ReadMolecule"}
    [] s = "SetupMolecule" -> {"GetDefinitions", "ReadMolecule", "DropWater"}
    [] s = "SetTermini"    -> {"SetupMolecule"}
    [] s = "UpdateBonds"   -> {"SetTermini"}
    [] s = "CleanLines"    -> {"UpdateBonds"}
    [] s = "LoadFF"        -> {"UpdateBonds"}
    [] s = "SetHip"        -> {"LoadFF"}
    [] s = "Repair"        -> {"LoadFF"}
    [] s = "UpdateSS"      -> {"Repair"}
    [] s = "Debump"        -> {"UpdateSS"}
    [] s = "RemoveH"       -> {"UpdateSS", "Debump"}
    [] s = "RunPka"        -> {"RemoveH"}
    [] s = "ApplyPka"      -> {"RunPka"}
    [] s = "AddH"          -> {"UpdateSS", "Debump", "ApplyPka"}
    [] s = "Debump2"       -> {"AddH"}
    [] s = "OptInit"       -> {"AddH", "Debump2"}
    [] s = "Optimize"      -> {"OptInit"}
    [] s = "Cleanup"       -> {"Optimize"}
    [] s = "SetStates"     -> {"SetHip", "Cleanup", "LoadFF"}
    [] s = "ApplyFF"       -> {"SetStates"}
    [] s = "Ligand"        -> {"ApplyFF"}
    [] s = "ChargeCheck"   -> {"ApplyFF", "Ligand"}
    [] s = "NameScheme"    -> {"ChargeCheck"}
    [] s = "Header"        -> {"ChargeCheck", "NameScheme"}
    [] s = "RenderLines"   -> {"Header"}
    [] s = "PrintPqr"      -> {"CleanLines", "RenderLines"}
    [] s = "PrintPdb"      -> {"PrintPqr"}
    [] s = "DumpApbs"      -> {"PrintPqr"}

\* what a stage may write
Writes(s, o) ==
  CASE s \in {"SetupMolecule"} -> {"heavy", "coords", "order", "numbers", "names"}     \* creates the model
    \* stages that add / remove atoms ("numbers": a new atom has no parameters yet)
    [] s \in {"SetTermini", "Repair", "RemoveH", "AddH", "Cleanup"} -> {"coords", "order", "names", "numbers"}
    [] s = "ApplyPka"  -> {"coords", "order", "names", "numbers"}
    [] s \in {"Debump", "Debump2"} -> {"heavy", "coords"}
    [] s \in {"OptInit", "Optimize"} -> IF EffOpt(o) THEN {"heavy", "coords", "order", "names", "numbers"}
                                        ELSE {"coords", "order", "names", "numbers"}
    [] s \in {"SetHip", "SetStates", "UpdateSS"} -> {"coords", "order", "names", "numbers"}   \* HIS hydrogens, patches
    [] s \in {"ApplyFF", "Ligand"} -> {"numbers"}
    [] s = "NameScheme" -> {"names"}
    [] s = "PrintPqr"   -> {"pqr"}
    [] OTHER -> {}

ComputeStages == StageSet \ {"PrintPqr", "PrintPdb", "DumpApbs"}

VARIABLES opts,     \* option record of this run
          fs0,      \* state of the output path before the run
          fault,    \* stage at which a fault is injected, or "none"
          done,     \* stages finished
          changed,  \* parts written so far, per part the set of stages that wrote it
          pqr,      \* "untouched" | "written"
          result    \* "running" | "ok" | "error"
vars == <<opts, fs0, fault, done, changed, pqr, result>>

Parts == {"heavy", "coords", "order", "numbers", "names", "pqr"}
Ready(s) == /\ s \notin done /\ Enabled(s, opts)
            /\ \A d \in After(s) : d \in done \/ ~Enabled(d, opts)

Init == /\ opts \in OptionSets /\ fs0 \in InitialFs /\ fault \in FaultStages
        /\ done = {} /\ changed = [p \in Parts |-> {}] /\ pqr = "untouched" /\ result = "running"

Run(s) ==
  /\ result = "running" /\ Ready(s) /\ s # fault
  /\ done' = done \cup {s}
  /\ changed' = [p \in Parts |-> IF p \in Writes(s, opts) THEN changed[p] \cup {s} ELSE changed[p]]
  /\ pqr' = IF s = "PrintPqr" THEN "written" ELSE pqr
  /\ UNCHANGED <<opts, fs0, fault, result>>
Fail(s) ==
  /\ result = "running" /\ Ready(s) /\ s = fault
  /\ result' = "error" /\ UNCHANGED <<opts, fs0, fault, done, changed, pqr>>
Finish ==
  /\ result = "running" /\ \A s \in StageSet : s \in done \/ ~Enabled(s, opts)
  /\ result' = "ok" /\ UNCHANGED <<opts, fs0, fault, done, changed, pqr>>
Next == (\E s \in StageSet : Run(s) \/ Fail(s)) \/ Finish
Spec == Init /\ [][Next]_vars

(***************************************************************************)
(* Properties                                                              *)
(***************************************************************************)
AllComputed == \A s \in ComputeStages : s \in done \/ ~Enabled(s, opts)
\* C12: the output path is written only by PrintPqr, only after every computing stage has finished
WriteOnlyWhenComplete == pqr = "written" => AllComputed
\* C12: a run that fails before PrintPqr leaves the output path as it was
FailureLeavesOutputUntouched == (result = "error" /\ fault \in ComputeStages \cup {"PrintPqr"}) => pqr = "untouched"
\* C12: a fault is never swallowed
ErrorIsLoud == (fault # "none" /\ Enabled(fault, opts)) => result # "ok"
\* C04: stages that may move input heavy atoms, and never when the options forbid it
MoveStages == {"SetupMolecule", "Debump", "Debump2", "OptInit", "Optimize"}
HeavyOnlyInMoveStages == changed["heavy"] \subseteq MoveStages
NoMoveWhenForbidden ==
  (opts.clean \/ opts.assignOnly \/ (~opts.debump /\ ~opts.opt)) => changed["heavy"] \subseteq {"SetupMolecule"}
\* C09: after parameters are final (ChargeCheck done) nothing but names (NameScheme) and the files changes
FinalStages == {"NameScheme", "Header", "RenderLines", "PrintPqr", "PrintPdb", "DumpApbs", "CleanLines"}
NumbersFinalBeforeNaming ==
  \A p \in {"heavy", "coords", "order", "numbers"} : changed[p] \cap FinalStages = {}
NamesOnlyByNameScheme == changed["names"] \cap (FinalStages \ {"NameScheme"}) = {}
================================================================================
