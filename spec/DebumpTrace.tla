-------------------------------- MODULE DebumpTrace --------------------------------
(* Trace validation for Debump: one trace = one real call of Debump.debump_residue, recorded by the     *)
(* wrappers of pick_dihedral_angle ("pick", n), score_dihedral_angle ("score", s in 1e-6 units),        *)
(* set_dihedral_angle ("set", a in milli-degrees), find_residue_conflicts ("conf", k = number of        *)
(* conflicts) and the return value ("ret", v).  The spec's actions consume the events; a trace that is  *)
(* consumed to its end is a behaviour of Debump.tla (so NeverWorse, BestIsSet, Untouched hold on it).   *)
(* Printed per trace: <<"T", id, accepted, furthest event reached>>.  A rejected trace is DRIFT: the    *)
(* search is not one of the listed properties.                                                          *)
EXTENDS Naturals, Integers, Sequences, FiniteSets, TLC, Json, IOUtils
CONSTANTS Steps, StepSize, TestCount
Traces == JsonDeserialize(IOEnv.TRACE_FILE)
VARIABLES pc, round, dih, orig, i, best, bestscore, found, score0, cur, ret, tid, l
D == INSTANCE Debump WITH Scores <- {}, NAngles <- 0
T == Traces[tid]
Ev(k) == T.ev[k]
Has(k, e) == k <= Len(T.ev) /\ Ev(k).e = e
Abs(v) == IF v < 0 THEN -v ELSE v
Near(a, b) == Abs(a - b) <= 2          \* milli-degrees: rounding of the logged angles

TInit == D!Init /\ tid \in 1..Len(Traces) /\ l = 1
TPick == Has(l, "pick") /\ D!Pick(Ev(l).n) /\ l' = l + 1
TGiveUp == D!GiveUp /\ UNCHANGED l
\* the original angle is not logged: it is one step before the first angle set
TScore0 == /\ Has(l, "score") /\ Has(l + 1, "set")
           /\ D!Score0(Ev(l + 1).a - StepSize, Ev(l).s) /\ l' = l + 1
TScan == /\ pc = "scan" /\ Has(l, "set") /\ Has(l + 1, "score") /\ Near(Ev(l).a, orig + i * StepSize)
         /\ IF Ev(l + 1).s = 0
            THEN Has(l + 2, "conf") /\ D!Scan(0, Ev(l + 2).k > 0) /\ l' = l + 3
            ELSE D!Scan(Ev(l + 1).s, FALSE) /\ l' = l + 2
TScanEnd == D!ScanEnd /\ UNCHANGED l
TFinal == /\ pc = "final" /\ Has(l, "set") /\ Has(l + 1, "conf") /\ Near(Ev(l).a, best)
          /\ D!Final /\ l' = l + 2
TRet == /\ pc = "done" /\ Has(l, "ret") /\ Ev(l).v = (ret = "true") /\ l' = l + 1
        /\ UNCHANGED <<pc, round, dih, orig, i, best, bestscore, found, score0, cur, ret>>
TNext == (TPick \/ TGiveUp \/ TScore0 \/ TScan \/ TScanEnd \/ TFinal \/ TRet) /\ UNCHANGED tid
TSpec == TInit /\ [][TNext]_<<pc, round, dih, orig, i, best, bestscore, found, score0, cur, ret, tid, l>>
\* the furthest event reached per trace is kept in a TLC register (single worker)
Progress == /\ TLCSet(tid, IF TLCGet(tid) > l THEN TLCGet(tid) ELSE l)
            /\ D!NeverWorse /\ D!BestIsSet /\ D!Untouched
Reached(t) == TLCGet(t)
Verdicts == \A t \in 1..Len(Traces) : PrintT(<<"T", Traces[t].id, Reached(t) = Len(Traces[t].ev) + 1, Reached(t)>>)
ASSUME \A t \in 1..Len(Traces) : TLCSet(t, 0)
================================================================================
