--------------------------------- MODULE CifColumns ---------------------------------
(***************************************************************************)
(* mmCIF atom_site rows -> fixed-column PDB records (property C10).        *)
(* Code anchors: cif.atom_site (column assembly from atom_site items incl. *)
(* the branches on missing-value markers), pdb.ATOM/HETATM (slicing).      *)
(* Fields are strings.  Convention is how the parsing dependency hands     *)
(* over missing values: "verbatim" (the markers "." and "?" as text) or    *)
(* "pdbx2" (the installed mmcif-pdbx 2.x: "" for "." and None for "?").    *)
(* Deviation constants name the code as it was before each fix:            *)
(*   AltDropped    - the alt-loc column is emitted only for the "." marker *)
(*                   (a real alt id, or the pdbx2 markers, emit nothing)   *)
(*   IcodeIgnored  - pdbx_PDB_ins_code is not used and only three columns  *)
(*                   separate the residue number from x (x one column early)*)
(*   Name4Shifted  - a four-character atom name starts in column 14        *)
(***************************************************************************)
EXTENDS Naturals, Integers, Sequences, FiniteSets, TLC, Json

CONSTANTS Groups, Ids, Names, Alts, Comps, Asyms, Seqs, ICodes, Xs, Ys, Zs, Charges, Conventions,
          AltDropped, IcodeIgnored, Name4Shifted, Emit

VARIABLES f, line, parsed, pc
vars == <<f, line, parsed, pc>>

Spaces(n) == IF n <= 0 THEN "" ELSE SubSeq("                    ", 1, n)
RJ(s, n) == Spaces(n - Len(s)) \o s          \* " " * (n - len(s)) + s   (no cutting: a longer value shifts the rest)
LJ(s, n) == s \o Spaces(n - Len(s))
Ch(s, i) == SubSeq(s, i, i)
Sub(s, a, b) == IF a > Len(s) THEN "" ELSE SubSeq(s, a, IF b > Len(s) THEN Len(s) ELSE b)
RECURSIVE LStrip(_), RStrip(_)
LStrip(s) == IF s # "" /\ Ch(s, 1) = " " THEN LStrip(SubSeq(s, 2, Len(s))) ELSE s
RStrip(s) == IF s # "" /\ Ch(s, Len(s)) = " " THEN RStrip(SubSeq(s, 1, Len(s) - 1)) ELSE s
Strip(s) == LStrip(RStrip(s))

\* what get_value returns for an item whose value is v ("" stands for "no value": marker "." or "?")
Got(v, marker, conv) == IF v # "" THEN v ELSE IF conv = "verbatim" THEN marker ELSE IF marker = "." THEN "" ELSE "None"
IsMissing(g) == g \in {".", "?", "", "None"}

Assemble(a) ==
  LET alt == Got(a.alt, ".", a.conv)
      ic  == Got(a.icode, "?", a.conv)
  IN LJ(a.group, 6)
     \o RJ(a.id, 5)
     \o (IF Len(a.name) = 4 /\ ~Name4Shifted THEN " " \o a.name ELSE "  " \o LJ(a.name, 3))
     \o (IF AltDropped THEN (IF alt = "." THEN " " ELSE "") ELSE (IF IsMissing(alt) THEN " " ELSE alt))
     \o RJ(a.comp, 3) \o " " \o RJ(a.asym, 1) \o RJ(a.seq, 4)
     \o (IF IcodeIgnored THEN "   " ELSE (IF IsMissing(ic) THEN " " ELSE ic) \o "   ")
     \o RJ(a.x, 8) \o RJ(a.y, 8) \o RJ(a.z, 8) \o RJ("1.00", 6) \o RJ("20.00", 6) \o Spaces(10) \o RJ("C", 2)

\* pdb.ATOM / pdb.HETATM
ParseAtom(l) ==
  [type |-> Strip(Sub(l, 1, 6)), name |-> Strip(Sub(l, 13, 16)), alt |-> Strip(Sub(l, 17, 17)),
   resname |-> Strip(Sub(l, 18, 20)), chain |-> Strip(Sub(l, 22, 22)), resseq |-> Strip(Sub(l, 23, 26)),
   icode |-> Strip(Sub(l, 27, 27)), x |-> Strip(Sub(l, 31, 38)), y |-> Strip(Sub(l, 39, 46)), z |-> Strip(Sub(l, 47, 54))]

Init == /\ f \in [group : Groups, id : Ids, name : Names, alt : Alts, comp : Comps, asym : Asyms, seq : Seqs,
                  icode : ICodes, x : Xs, y : Ys, z : Zs, charge : Charges, conv : Conventions]
        /\ line = "" /\ parsed = [type |-> "unparsed"] /\ pc = "assemble"
AssembleLine == pc = "assemble" /\ line' = Assemble(f) /\ pc' = "parse" /\ UNCHANGED <<f, parsed>>
Parse == pc = "parse" /\ parsed' = ParseAtom(line) /\ pc' = "done" /\ UNCHANGED <<f, line>>
Next == AssembleLine \/ Parse
Spec == Init /\ [][Next]_vars

\* what the PDB record of the same atom parses to
Want(a) == [type |-> a.group, name |-> a.name, alt |-> a.alt, resname |-> a.comp, chain |-> a.asym, resseq |-> a.seq,
            icode |-> a.icode, x |-> a.x, y |-> a.y, z |-> a.z]
Flds == {"type", "name", "alt", "resname", "chain", "resseq", "icode", "x", "y", "z"}
Bad(a, p) == IF "name" \notin DOMAIN p THEN {"error"} ELSE {k \in Flds : Want(a)[k] # p[k]}
SameAtomAsPdb == pc = "done" => Bad(f, parsed) = {}
EmitInv == (Emit /\ pc = "done") => PrintT("@" \o ToJson([f |-> f, line |-> line, parsed |-> parsed, bad |-> Bad(f, parsed)]))
================================================================================
