SPECIFICATION TSpec
CONSTANTS
  MaxLen = 1000
  BlankStops = FALSE
  EndEmptyRaises = FALSE
  GluedKeepsWater = FALSE
  EmptyModelContinues = FALSE
  DropWaterChoices = {FALSE, TRUE}
  Emit = FALSE
INVARIANT Report
