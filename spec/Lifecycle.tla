---------------------------------- MODULE Lifecycle ----------------------------------
(***************************************************************************)
(* The atom ledger of one run (property C03).  Code anchors:               *)
(* Residue.add_atom / create_atom / remove_atom / rename_atom as used by   *)
(* Biomolecule.__init__, apply_patch (terminus and protonation patches),   *)
(* repair_heavy (rebuild missing heavy atoms; delete and report extra      *)
(* atoms), remove_hydrogens, add_hydrogens, the hydrogen-optimisation      *)
(* classes (temporary *FLIP copies, lone pairs, doubled carboxylic         *)
(* hydrogens), HydrogenRoutines.cleanup, set_states (HIS tautomers),       *)
(* apply_force_field / the ligand loop (matched / unassigned lists) and    *)
(* print_biomolecule_atoms (only matched atoms are written).               *)
(*                                                                         *)
(* Every atom object has an identity a in 1..N.  origin[a] is decided by   *)
(* the stage that created it.  The primitive operations are legal only in  *)
(* the stages listed in MayCreate / MayDelete.                             *)
(***************************************************************************)
EXTENDS Naturals, Sequences, FiniteSets, TLC

CONSTANTS N   \* number of atom identities
VARIABLES alive,   \* set of atoms currently owned by a residue
          name,    \* atom -> current name
          origin,  \* atom -> "none" | "input" | "addedHeavy" | "addedH" | "temp"
          heavy,   \* atom -> BOOLEAN (not a hydrogen / lone pair)
          gone,    \* atoms deleted so far, with the stage: sequence of [a, stage, was]
          resOf,   \* atom -> residue label
          heir     \* atom -> the atom that took its place when a flip was kept (itself otherwise)
vars == <<alive, name, origin, heavy, gone, resOf, heir>>

Init == /\ alive = {} /\ name = [a \in 1..N |-> ""] /\ origin = [a \in 1..N |-> "none"]
        /\ heavy = [a \in 1..N |-> FALSE] /\ gone = <<>> /\ resOf = [a \in 1..N |-> ""] /\ heir = [a \in 1..N |-> a]

IsTempName(nm) == nm \in {"LP1", "LP2", "FLIP"} \/ (Len(nm) > 4 /\ SubSeq(nm, Len(nm) - 3, Len(nm)) = "FLIP")
IsHName(nm) == nm # "" /\ SubSeq(nm, 1, 1) = "H"
\* origin of an atom created in a stage
OriginIn(stage, nm) ==
  IF stage \in {"SetupMolecule", ""} THEN "input"
  ELSE IF IsTempName(nm) THEN "temp"
  ELSE IF IsHName(nm) THEN "addedH" ELSE "addedHeavy"
\* which origins a stage may create
MayCreate(stage, org) ==
  CASE org = "input"      -> stage \in {"SetupMolecule", ""}
    [] org = "addedHeavy" -> stage = "Repair"
    [] org = "addedH"     -> stage \in {"AddH", "OptInit", "Optimize", "Cleanup", "Repair", "SetStates"}
    [] org = "temp"       -> stage \in {"OptInit", "Optimize"}
\* which stages may delete an atom of a given origin (heavy input atoms: only repair_heavy, which reports, and the
\* terminus patches, which remove the 5' phosphate by design)
\* flipcopy: a copy named <name>FLIP of this atom exists in its residue (Flip.finalize keeps the copy and renames it)
MayDelete(stage, org, hv, flipcopy) ==
  IF (org = "input" /\ hv) \/ org = "addedHeavy" THEN stage \in {"Repair", "SetTermini"} \/ (stage = "Optimize" /\ flipcopy)
  ELSE stage \in {"SetTermini", "Repair", "RemoveH", "ApplyPka", "AddH", "OptInit", "Optimize", "Cleanup", "SetStates", "SetHip",
                  "UpdateSS", "Debump"}

Create(a, nm, stage, hv, res) ==
  /\ a \notin alive
  /\ alive' = alive \cup {a} /\ name' = [name EXCEPT ![a] = nm] /\ resOf' = [resOf EXCEPT ![a] = res]
  /\ origin' = [origin EXCEPT ![a] = IF @ = "none" THEN OriginIn(stage, nm) ELSE @]
  /\ heavy' = [heavy EXCEPT ![a] = hv] /\ UNCHANGED <<gone, heir>>
Delete(a, stage) ==
  /\ a \in alive
  /\ alive' = alive \ {a} /\ gone' = Append(gone, [a |-> a, stage |-> stage, was |-> origin[a]])
  /\ UNCHANGED <<name, origin, heavy, resOf, heir>>
\* a flip that is kept: the copy <X>FLIP is renamed to <X> after the original <X> was deleted; it takes its place
FlipOriginal(a, nm) == {g \in {gone[k].a : k \in 1..Len(gone)} : name[g] = nm /\ resOf[g] = resOf[a] /\ heir[g] = g /\ g \notin alive}
Rename(a, nm) ==
  /\ a \in alive /\ name' = [name EXCEPT ![a] = nm]
  /\ IF name[a] = nm \o "FLIP" /\ FlipOriginal(a, nm) # {}
     THEN LET g == CHOOSE x \in FlipOriginal(a, nm) : TRUE IN
          heir' = [heir EXCEPT ![g] = a] /\ origin' = [origin EXCEPT ![a] = origin[g]] /\ heavy' = [heavy EXCEPT ![a] = heavy[g]]
     ELSE UNCHANGED <<heir, origin, heavy>>
  /\ UNCHANGED <<alive, gone, resOf>>
HasFlipCopy(a) == \E b \in alive : resOf[b] = resOf[a] /\ name[b] = name[a] \o "FLIP"
================================================================================
