------------------------------- MODULE CifColumnsTrace -------------------------------
(* Trace validation for CifColumns.  kind "row": one atom_site row written to a real mmCIF file  *)
(* by an independent writer and read by the real cif.read_cif (T.obs = fields of the pdb.ATOM /  *)
(* HETATM object; T.pdb = fields the real pdb.read_pdb gives for the PDB record of the same      *)
(* atom).  acc = (the spec's parse equals T.obs); the clause SameAtomAsPdb is evaluated on the   *)
(* observation against both the abstract fields and the PDB reader's result.                     *)
(* kind "structure": atoms (as text tuples) of the PQR files produced from the PDB and the mmCIF *)
(* encoding of one structure must be identical sequences.                                        *)
EXTENDS CifColumns, IOUtils, SequencesExt
VARIABLES tid
Traces == JsonDeserialize(IOEnv.TRACE_FILE)
T == Traces[tid]
TInit == /\ tid \in 1..Len(Traces) /\ f = Traces[tid].f
         /\ line = "" /\ parsed = [type |-> "unparsed"] /\ pc = "assemble"
TNext == Next /\ UNCHANGED tid
TSpec == TInit /\ [][TNext]_<<vars, tid>>
StructBad ==
  (IF Len(T.a1) = Len(T.a2) THEN {} ELSE {"AtomCount"}) \cup
  (IF \A k \in 1..Len(T.a1) : k <= Len(T.a2) => T.a1[k] = T.a2[k] THEN {} ELSE {"AtomsEqual"})
Report == pc = "done" =>
   IF T.kind = "row"
   THEN PrintT(<<"T", T.id, parsed = T.obs, SetToSeq(Bad(T.f, T.obs) \cup {"pdb:" \o k : k \in Bad(T.f, T.pdb)})>>)
   ELSE PrintT(<<"T", T.id, TRUE, SetToSeq(StructBad)>>)
================================================================================
