SPECIFICATION Spec
CONSTANTS
  MaxTries = 4
  LeakLP = FALSE
INVARIANT NoTempAfterComplete
INVARIANT FinalSetIsTopology
INVARIANT InputHeavyConserved
