---------------------------------- MODULE Titration ----------------------------------
(***************************************************************************)
(* Titration-state assignment from pKa values (property C06).              *)
(* Code anchor: Biomolecule.apply_pka_values - for one residue the three   *)
(* decisions in code order (N-terminus key, C-terminus key, side-chain     *)
(* key), each "compare pH with pKa, then either apply the patch or - if    *)
(* the force field / chain position is in the guard list - warn and keep   *)
(* the default state".                                                     *)
(* Guard is the transcription of the guard lists of the current tree.      *)
(* Supported(ff, group, pos) is extracted from the current force-field     *)
(* files by the harness: the non-default state of the group at that        *)
(* position is fully parameterised by that force field.                    *)
(***************************************************************************)
EXTENDS Naturals, Sequences, FiniteSets, TLC, Json

CONSTANTS FFs,            \* force-field names as apply_pka_values sees them (lower case)
          SupportedSet,   \* set of <<ff, group, pos>>
          GuardFix,       \* TRUE: guard lists after the fix commit (terminal CYS, N-terminal LYS, PEOEPB CYM/LYN/GLH);
                          \* FALSE: the lists as they were, kept for the self-test
          Emit

Groups == {"ARG", "ASP", "CYS", "GLU", "HIS", "LYS", "TYR"}
Sides  == {"below", "equal", "above"}      \* pH relative to the pKa of the key
Pos    == {"N", "I", "C"}
NonDefault == [NTERM |-> "NEUTRAL-NTERM", CTERM |-> "NEUTRAL-CTERM", ARG |-> "AR0", ASP |-> "ASH", CYS |-> "CYM",
               GLU |-> "GLH", HIS |-> "HIP", LYS |-> "LYN", TYR |-> "TYM"]
\* the comparison that selects the non-default state: acids that are deprotonated by default take their
\* protonated form below the pKa; groups protonated by default lose the proton at and above it
NonDefaultWhen(g, side) == IF g \in {"ASP", "GLU", "HIS", "CTERM"} THEN side = "below" ELSE side \in {"equal", "above"}
Supported(ff, g, pos) == <<ff, g, pos>> \in SupportedSet

Most == {"amber", "charmm", "tyl06", "peoepb", "swanson"}
ATS  == {"amber", "tyl06", "swanson"}
Guard(ff, g, pos) ==
  CASE g \in {"NTERM", "CTERM"} -> ff \in Most
    [] g = "ARG" -> ff # "parse"
    [] g = "ASP" -> pos \in {"N", "C"} /\ ff \in ATS
    [] g = "GLU" -> (pos \in {"N", "C"} /\ ff \in ATS) \/ (GuardFix /\ ff = "peoepb")
    [] g = "CYS" -> ff = "charmm" \/ (GuardFix /\ ((ff \in ATS /\ pos \in {"N", "C"}) \/ ff = "peoepb"))
    [] g = "HIS" -> FALSE
    [] g = "LYS" -> \/ ff = "charmm" \/ (ff \in ATS /\ pos = "C") \/ (ff = "tyl06" /\ pos = "N")
                    \/ (GuardFix /\ (ff = "peoepb" \/ (ff \in {"amber", "swanson"} /\ pos = "N")))
    [] g = "TYR" -> ff \in Most

VARIABLES res,      \* the residue under consideration: [ff, pos, group ("" = not titratable), sideT, sideG]
          patches,  \* patches applied, in order
          warned,   \* keys for which a warning was issued
          pc
vars == <<res, patches, warned, pc>>

Init == /\ res \in [ff : FFs, pos : Pos, group : Groups \cup {""}, sideT : Sides, sideG : Sides]
        /\ patches = <<>> /\ warned = {} /\ pc = "nterm"

Decide(g, side) ==
  IF NonDefaultWhen(g, side)
  THEN IF Guard(res.ff, g, res.pos) THEN patches' = patches /\ warned' = warned \cup {g}
       ELSE patches' = Append(patches, NonDefault[g]) /\ warned' = warned
  ELSE UNCHANGED <<patches, warned>>
DecideNterm == /\ pc = "nterm" /\ pc' = "cterm" /\ UNCHANGED res
               /\ IF res.pos = "N" THEN Decide("NTERM", res.sideT) ELSE UNCHANGED <<patches, warned>>
DecideCterm == /\ pc = "cterm" /\ pc' = "side" /\ UNCHANGED res
               /\ IF res.pos = "C" THEN Decide("CTERM", res.sideT) ELSE UNCHANGED <<patches, warned>>
DecideSide  == /\ pc = "side" /\ pc' = "done" /\ UNCHANGED res
               /\ IF res.group # "" THEN Decide(res.group, res.sideG) ELSE UNCHANGED <<patches, warned>>
Next == DecideNterm \/ DecideCterm \/ DecideSide
Spec == Init /\ [][Next]_vars

(***************************************************************************)
(* The property for residue r and an outcome o = [nondef: set of groups    *)
(* that ended in their non-default state, warned: set of groups warned     *)
(* about, dropped: BOOLEAN] (the model's or an observed one).              *)
(***************************************************************************)
KeysOf(r) == (IF r.pos = "N" THEN {"NTERM"} ELSE {}) \cup (IF r.pos = "C" THEN {"CTERM"} ELSE {})
             \cup (IF r.group # "" THEN {r.group} ELSE {})
SideOf(r, g) == IF g \in {"NTERM", "CTERM"} THEN r.sideT ELSE r.sideG
Bad(r, o) ==
  {<<"ProtonatedIffBelow", g>> : g \in {k \in KeysOf(r) : Supported(r.ff, k, r.pos)
                                          /\ ((k \in o.nondef) # NonDefaultWhen(k, SideOf(r, k)))}}
  \cup {<<"UnsupportedKeepsDefault", g>> : g \in {k \in KeysOf(r) : ~Supported(r.ff, k, r.pos) /\ k \in o.nondef}}
  \cup {<<"UnsupportedWarns", g>> : g \in {k \in KeysOf(r) : ~Supported(r.ff, k, r.pos)
                                               /\ NonDefaultWhen(k, SideOf(r, k)) /\ k \notin o.warned}}
  \cup (IF o.dropped THEN {<<"NoResidueDropped", r.group>>} ELSE {})
ModelOutcome == [nondef |-> {g \in KeysOf(res) : \E n \in 1..Len(patches) : patches[n] = NonDefault[g]},
                 warned |-> warned,
                 dropped |-> \E g \in KeysOf(res) : (\E n \in 1..Len(patches) : patches[n] = NonDefault[g])
                                                    /\ ~Supported(res.ff, g, res.pos)]
WithinSupport == pc = "done" => Bad(res, ModelOutcome) = {}
EmitInv == (Emit /\ pc = "done") => PrintT("@" \o ToJson([res |-> res, patches |-> patches]))
================================================================================
