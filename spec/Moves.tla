------------------------------------ MODULE Moves ------------------------------------
(***************************************************************************)
(* Which atoms a torsion change moves (property C04, topology clause; C05, *)
(* "hydrogens move with their parents only").  Code anchors:               *)
(* Biomolecule.set_reference_distance (rank = bond distance from CA, with  *)
(* its special cases), Residue.get_moveable_names (atoms "beyond the       *)
(* pivot"), Debump.set_dihedral_angle (rotation of those atoms about the   *)
(* bond atom2-atom3 of the dihedral).                                      *)
(*                                                                         *)
(* A case is one residue of the current topology files at a chain position *)
(* with one of its dihedrals: atoms, bonds, the dihedral's four atoms.     *)
(* The state machine computes the rank by breadth-first search from CA     *)
(* (action Rank, one layer per step) and then the moved set (action Move). *)
(* Component = TRUE is the rule after the fix: an atom moves if it is      *)
(* connected to the pivot through atoms ranked beyond the pivot;           *)
(* Component = FALSE is the historical rule: every atom ranked beyond.     *)
(***************************************************************************)
EXTENDS Naturals, Integers, Sequences, FiniteSets, TLC, Json

CONSTANTS Cases,      \* sequence of [atoms, bonds (pairs), dih (4 names), nterm, cterm, backbone (names), label]
          Component

VARIABLES c, rank, frontier, depth, moved, pc
vars == <<c, rank, frontier, depth, moved, pc>>
Case == Cases[c]
Atoms == {Case.atoms[i] : i \in 1..Len(Case.atoms)}
Bonds == {{Case.bonds[i][1], Case.bonds[i][2]} : i \in 1..Len(Case.bonds)}
Nbrs(a) == {b \in Atoms : {a, b} \in Bonds}
Backbone == {Case.backbone[i] : i \in 1..Len(Case.backbone)}
Unranked == 99

\* special cases of set_reference_distance
Special(a) == IF a \in Backbone THEN -1
              ELSE IF Case.cterm /\ a = "HO" THEN 3
              ELSE IF Case.nterm /\ a \in {"H2", "H3"} THEN 2 ELSE Unranked
Init == /\ c \in 1..Len(Cases)
        /\ rank = [a \in {Cases[c].atoms[i] : i \in 1..Len(Cases[c].atoms)} |-> Unranked]
        /\ frontier = {"CA"} /\ depth = 0 /\ moved = {} /\ pc = "rank"
\* one breadth-first layer: path length to CA over the bond graph of the residue
Rank == /\ pc = "rank"
        /\ IF frontier = {} THEN pc' = "move" /\ UNCHANGED <<rank, frontier, depth>>
           ELSE /\ rank' = [a \in Atoms |-> IF a \in frontier /\ rank[a] = Unranked THEN depth ELSE rank[a]]
                /\ frontier' = {b \in Atoms : rank[b] = Unranked /\ b \notin frontier /\ \E a \in frontier : b \in Nbrs(a)}
                /\ depth' = depth + 1 /\ pc' = pc
        /\ UNCHANGED <<c, moved>>
Final(a) == IF Special(a) # Unranked THEN Special(a) ELSE rank[a]
Pivot == Case.dih[3]
Beyond == {a \in Atoms : Final(a) > Final(Pivot)}
RECURSIVE Flood(_, _)
Flood(S, n) == IF n = 0 THEN S ELSE Flood(S \cup {b \in Beyond : \E a \in S : b \in Nbrs(a)}, n - 1)
Move == /\ pc = "move" /\ pc' = "done"
        /\ moved' = IF Component THEN Flood({b \in Beyond : b \in Nbrs(Pivot)}, Cardinality(Atoms)) ELSE Beyond
        /\ UNCHANGED <<c, rank, frontier, depth>>
Next == Rank \/ Move
Spec == Init /\ [][Next]_vars

(***************************************************************************)
(* The property for a moved set M of a case (the model's or the one the    *)
(* real get_moveable_names returned).                                      *)
(***************************************************************************)
Axis == {Case.dih[2], Case.dih[3]}
\* atoms that must never move: backbone and terminal-cap atoms
Protected == Backbone \cup {"OXT", "H2", "H3", "HO", "HA2", "HA3"}
Bad(M) ==
  {<<"ProtectedAtomMoves", a>> : a \in (M \cap Protected)}
  \cup {<<"BondCutOffAxis", b>> : b \in {x \in M : \E y \in Nbrs(x) : y \notin M /\ y \notin Axis}}
  \cup (IF Case.dih[4] \in M THEN {} ELSE {<<"FourthAtomStays", Case.dih[4]>>})
RigidSafe == pc = "done" => Bad(moved) = {}
================================================================================
