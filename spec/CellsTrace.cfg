SPECIFICATION TSpec
CONSTANTS
  Size = 2
INVARIANT Done
