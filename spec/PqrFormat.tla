--------------------------------- MODULE PqrFormat ---------------------------------
(***************************************************************************)
(* Serialisation of one atom record to PQR text and back (property C08).   *)
(* Code anchors: structures.Atom.get_common_string_rep / get_pqr_string    *)
(* (fixed-column formatter with per-field slicing), main.print_pqr         *)
(* (--whitespace re-spacing by column slices), structures.Atom.            *)
(* from_pqr_line / io.read_pqr (token reader and its heuristics).          *)
(*                                                                         *)
(* All fields are strings; numbers enter as their decimal text (the        *)
(* number -> text step is outside the specification).  Three actions:      *)
(* Format (the formatter), Respace (print_pqr), Read (the token reader).   *)
(***************************************************************************)
EXTENDS Naturals, Integers, Sequences, FiniteSets, TLC, Json, SequencesExt

CONSTANTS Types, Serials, Names, ResNames, Chains, ResSeqs, ICodes, Xs, Ys, Zs, Charges, Radii,
          KeepChain,    \* set of values of --keep-chain explored
          Whitespace,   \* set of values of --whitespace explored
          Emit

VARIABLES f,      \* the atom's fields (strings) and the flags: the abstract input
          line,   \* text produced by get_pqr_string
          out,    \* text written by print_pqr (re-spaced if --whitespace)
          rd,     \* what from_pqr_line returns for out: record of fields, or [err |-> ...]
          pc
vars == <<f, line, out, rd, pc>>

(***************************************************************************)
(* string helpers                                                          *)
(***************************************************************************)
Spaces(n) == SubSeq("                    ", 1, n)
RJ(s, n) == IF Len(s) >= n THEN s ELSE Spaces(n - Len(s)) \o s          \* str.rjust
LJ(s, n) == IF Len(s) >= n THEN s ELSE s \o Spaces(n - Len(s))          \* str.ljust
Cut(s, n) == IF Len(s) <= n THEN s ELSE SubSeq(s, 1, n)                   \* [:n]
Ch(s, i) == SubSeq(s, i, i)
Sub(s, a, b) == IF a > Len(s) THEN "" ELSE SubSeq(s, a, IF b > Len(s) THEN Len(s) ELSE b)   \* s[a-1:b]
RECURSIVE LStrip(_), RStrip(_)
LStrip(s) == IF s # "" /\ Ch(s, 1) = " " THEN LStrip(SubSeq(s, 2, Len(s))) ELSE s
RStrip(s) == IF s # "" /\ Ch(s, Len(s)) = " " THEN RStrip(SubSeq(s, 1, Len(s) - 1)) ELSE s
Strip(s) == LStrip(RStrip(s))
\* str.split(): maximal runs of non-blank characters
RECURSIVE Tok(_, _, _)
Tok(s, cur, acc) ==
  IF s = "" THEN (IF cur = "" THEN acc ELSE Append(acc, cur))
  ELSE IF Ch(s, 1) = " " \/ Ch(s, 1) = "\n"
       THEN Tok(SubSeq(s, 2, Len(s)), "", IF cur = "" THEN acc ELSE Append(acc, cur))
       ELSE Tok(SubSeq(s, 2, Len(s)), cur \o Ch(s, 1), acc)
Tokens(s) == Tok(s, "", <<>>)
Digits == {"0","1","2","3","4","5","6","7","8","9"}
IsInt(s) == LET b == IF s # "" /\ Ch(s, 1) \in {"-", "+"} THEN SubSeq(s, 2, Len(s)) ELSE s
            IN b # "" /\ \A i \in 1..Len(b) : Ch(b, i) \in Digits
IsFloat(s) == LET b == IF s # "" /\ Ch(s, 1) \in {"-", "+"} THEN SubSeq(s, 2, Len(s)) ELSE s
              IN /\ b # "" /\ \A i \in 1..Len(b) : Ch(b, i) \in Digits \cup {"."}
                 /\ Cardinality({i \in 1..Len(b) : Ch(b, i) = "."}) <= 1
                 /\ \E i \in 1..Len(b) : Ch(b, i) \in Digits

\* decimal text normalised to d decimals by padding zeros ("-1000.00" -> "-1000.000"): text equality after
\* normalisation is numeric equality for numbers carrying at most d decimals
DotPos(s) == IF \E i \in 1..Len(s) : Ch(s, i) = "." THEN CHOOSE i \in 1..Len(s) : Ch(s, i) = "." ELSE 0
Zeros(n) == SubSeq("0000", 1, n)
Norm(s, d) == IF ~IsFloat(s) THEN s
              ELSE IF DotPos(s) = 0 THEN s \o "." \o Zeros(d)
              ELSE IF Len(s) - DotPos(s) < d THEN s \o Zeros(d - (Len(s) - DotPos(s))) ELSE s
NormNums(r) == [r EXCEPT !.x = Norm(@, 3), !.y = Norm(@, 3), !.z = Norm(@, 3), !.q = Norm(@, 4), !.r = Norm(@, 4)]

(***************************************************************************)
(* get_common_string_rep + get_pqr_string                                  *)
(***************************************************************************)
\* len(name.strip("FLIP")) == 4: strip() removes the *characters* F, L, I, P from both ends
RECURSIVE LStripSet(_, _), RStripSet(_, _)
LStripSet(s, cs) == IF s # "" /\ Ch(s, 1) \in cs THEN LStripSet(SubSeq(s, 2, Len(s)), cs) ELSE s
RStripSet(s, cs) == IF s # "" /\ Ch(s, Len(s)) \in cs THEN RStripSet(SubSeq(s, 1, Len(s) - 1), cs) ELSE s
FlipStripped(s) == LStripSet(RStripSet(s, {"F","L","I","P"}), {"F","L","I","P"})

FormatLine(a) ==
  Cut(LJ(a.type, 6), 6)
  \o Cut(RJ(a.serial, 5), 5)
  \o " "
  \o (IF Len(a.name) = 4 \/ Len(FlipStripped(a.name)) = 4 THEN Cut(LJ(a.name, 4), 4) ELSE " " \o Cut(LJ(a.name, 3), 3))
  \o (IF Len(a.resname) = 4 THEN a.resname ELSE " " \o Cut(LJ(a.resname, 3), 3))
  \o " "
  \o Cut(LJ(IF a.keepchain THEN a.chain ELSE "", 1), 1)
  \o Cut(RJ(a.resseq, 4), 4)
  \o (IF a.icode # "" THEN a.icode \o "   " ELSE "    ")
  \o Cut(LJ(RJ(a.x, 8), 8), 8) \o Cut(LJ(RJ(a.y, 8), 8), 8) \o Cut(LJ(RJ(a.z, 8), 8), 8)
  \o Cut(RJ(a.q, 8), 8) \o Cut(RJ(a.r, 7), 7)

Format == pc = "format" /\ line' = FormatLine(f) /\ pc' = "print" /\ UNCHANGED <<f, out, rd>>

(***************************************************************************)
(* print_pqr: with --whitespace a blank is inserted after columns 6, 16,   *)
(* 38, 46 of ATOM/HETATM lines; other lines are dropped.                   *)
(***************************************************************************)
Respaced(l) ==
  Sub(l, 1, 6) \o " " \o Sub(l, 7, 16) \o " " \o Sub(l, 17, 38) \o " " \o Sub(l, 39, 46) \o " " \o Sub(l, 47, Len(l))
PrintPqr ==
  /\ pc = "print"
  /\ out' = IF f.ws THEN (IF Sub(line, 1, 4) = "ATOM" \/ Sub(line, 1, 6) = "HETATM" THEN Respaced(line) ELSE "")
            ELSE line
  /\ pc' = "read" /\ UNCHANGED <<f, line, rd>>

(***************************************************************************)
(* from_pqr_line on the written text                                       *)
(***************************************************************************)
ReadLine(text) ==
  LET w0 == Tokens(text) IN
  IF w0 = <<>> THEN [err |-> "IndexError"]
  ELSE LET t == w0[1]
           typ == IF t \in {"ATOM", "HETATM"} THEN t
                  ELSE IF Sub(t, 1, 4) = "ATOM" THEN "ATOM"
                  ELSE IF Sub(t, 1, 6) = "HETATM" THEN "HETATM" ELSE ""
           w == IF t \in {"ATOM", "HETATM"} THEN Tail(w0)
                ELSE IF Sub(t, 1, 4) = "ATOM" THEN <<Sub(t, 5, Len(t))>> \o Tail(w0)
                ELSE IF Sub(t, 1, 6) = "HETATM" THEN <<Sub(t, 7, Len(t))>> \o Tail(w0) ELSE <<>>
       IN
       IF typ = "" THEN [err |-> "ValueError"]
       ELSE IF Len(w) < 4 THEN [err |-> "IndexError"]
       ELSE IF ~IsInt(w[1]) THEN [err |-> "ValueError"]
       ELSE LET hasChain == ~IsInt(w[4])
                k == IF hasChain THEN 5 ELSE 4            \* index of res_seq
            IN IF Len(w) < k + 1 THEN [err |-> "IndexError"]
               ELSE IF ~IsInt(w[k]) THEN [err |-> "ValueError"]
               ELSE LET hasIns == ~IsFloat(w[k + 1])
                        m == IF hasIns THEN k + 2 ELSE k + 1   \* index of x
                        \* x, y, z, charge, radius are popped and converted one after the other
                        firstBad == IF \E j \in m..(m + 4) : j > Len(w) \/ ~IsFloat(w[j])
                                    THEN CHOOSE j \in m..(m + 4) : (j > Len(w) \/ ~IsFloat(w[j]))
                                            /\ \A i \in m..(j - 1) : i <= Len(w) /\ IsFloat(w[i])
                                    ELSE 0
                    IN IF firstBad # 0 /\ firstBad > Len(w) THEN [err |-> "IndexError"]
                       ELSE IF firstBad # 0 THEN [err |-> "ValueError"]
                       ELSE NormNums(
                            [err |-> "", type |-> typ, serial |-> w[1], name |-> w[2], resname |-> w[3],
                             chain |-> IF hasChain THEN w[4] ELSE "", resseq |-> w[k],
                             icode |-> IF hasIns THEN w[k + 1] ELSE "",
                             x |-> w[m], y |-> w[m + 1], z |-> w[m + 2], q |-> w[m + 3], r |-> w[m + 4]])
Read == pc = "read" /\ rd' = ReadLine(out) /\ pc' = "done" /\ UNCHANGED <<f, line, out>>

Init == /\ f \in [type : Types, serial : Serials, name : Names, resname : ResNames, chain : Chains,
                  resseq : ResSeqs, icode : ICodes, x : Xs, y : Ys, z : Zs, q : Charges, r : Radii,
                  keepchain : KeepChain, ws : Whitespace]
        /\ line = "" /\ out = "" /\ rd = [err |-> "unread"] /\ pc = "format"
Next == Format \/ PrintPqr \/ Read
Spec == Init /\ [][Next]_vars

(***************************************************************************)
(* The property for fields a, written text o and reader result r (the      *)
(* model's or observed).  Numbers are compared as decimal text after       *)
(* normalisation by the harness (same number of decimals), so text         *)
(* equality is value equality at the stated precision.                     *)
(***************************************************************************)
\* default layout: the documented PDB-style columns
ColumnFields(o) == NormNums(
  [type |-> Strip(Sub(o, 1, 6)), serial |-> Strip(Sub(o, 7, 11)), name |-> Strip(Sub(o, 13, 16)),
   resname |-> Strip(Sub(o, 17, 20)), chain |-> Strip(Sub(o, 22, 22)), resseq |-> Strip(Sub(o, 23, 26)),
   icode |-> Strip(Sub(o, 27, 27)), x |-> Strip(Sub(o, 31, 38)), y |-> Strip(Sub(o, 39, 46)),
   z |-> Strip(Sub(o, 47, 54)), q |-> Strip(Sub(o, 55, 62)), r |-> Strip(Sub(o, 63, 69))])
\* whitespace layout: plain tokenisation, fields by position
TokenFields(a, o) ==
  LET w == Tokens(o)
      c == IF a.keepchain /\ a.chain # "" THEN 1 ELSE 0
      n == 10 + c
  IN IF Len(w) # n THEN [err |-> "tokens"]
     ELSE NormNums([err |-> "", type |-> w[1], serial |-> w[2], name |-> w[3], resname |-> w[4],
           chain |-> IF c = 1 THEN w[5] ELSE "", resseq |-> w[5 + c],
           x |-> w[6 + c], y |-> w[7 + c], z |-> w[8 + c], q |-> w[9 + c], r |-> w[10 + c]])
Want(a) == [type |-> a.type, serial |-> a.serial, name |-> a.name, resname |-> a.resname,
            chain |-> IF a.keepchain THEN a.chain ELSE "", resseq |-> a.resseq,
            x |-> a.x, y |-> a.y, z |-> a.z, q |-> a.q, r |-> a.r]
CmpFields == {"type", "serial", "name", "resname", "chain", "resseq", "x", "y", "z", "q", "r"}
Diff(want, got) == {fld \in CmpFields : want[fld] # got[fld]}

\* clauses violated, as strings "<Reader>:<field>"
BadFixed(a, o) == {"Columns:" \o fld : fld \in Diff(Want(a), ColumnFields(o))}
BadTokens(a, o) ==
  LET t == TokenFields(a, o) IN
  IF t.err # "" THEN {"Tokens:count"}
  ELSE {"Tokens:" \o fld : fld \in Diff(Want(a), t)}
BadReader(a, r) ==
  IF r.err # "" THEN {"Reader:" \o r.err}
  ELSE {"Reader:" \o fld : fld \in Diff(Want(a), r)}
Bad(a, o, r) == IF a.ws THEN BadTokens(a, o) \cup BadReader(a, r) ELSE BadFixed(a, o)

Faithful == pc = "done" => Bad(f, out, rd) = {}

(***************************************************************************)
(* What the formatter as written guarantees.  Its fields have fixed widths *)
(* (serial 5, residue number 4, coordinates 8, charge 8, radius 7); a      *)
(* value wider than its field is cut.  In the whitespace layout an         *)
(* insertion code is glued to the residue number and a chain id is glued   *)
(* to a residue number of four characters.  Confined says: a clause is     *)
(* violated only for the field that is itself too wide (or by those two    *)
(* gluings) - a wide field never corrupts a neighbour - and in particular  *)
(* nothing is violated when every field fits.                              *)
(***************************************************************************)
Width == [serial |-> 5, resseq |-> 4, x |-> 8, y |-> 8, z |-> 8, q |-> 8, r |-> 7, name |-> 4, resname |-> 4,
          chain |-> 1, type |-> 6]
TooWide(a, fld) == Len(a[fld]) > Width[fld]
IcodeWs(a) == a.ws /\ a.icode # ""
ChainGlue(a) == a.ws /\ a.keepchain /\ a.chain # "" /\ Len(a.resseq) >= 4
AnyWide(a) == \E fld \in {"serial", "resseq", "x", "y", "z", "q", "r"} : TooWide(a, fld)
Explained(a, o, r) ==
  /\ \A fld \in Diff(Want(a), IF a.ws THEN (IF TokenFields(a, o).err = "" THEN TokenFields(a, o) ELSE Want(a))
                                   ELSE ColumnFields(o)) :
        TooWide(a, fld) \/ (fld \in {"resseq", "chain"} /\ (IcodeWs(a) \/ ChainGlue(a)))
  /\ (a.ws /\ TokenFields(a, o).err # "") => (IcodeWs(a) \/ ChainGlue(a))
  /\ (a.ws /\ r.err # "") => (IcodeWs(a) \/ ChainGlue(a) \/ AnyWide(a))
  /\ (a.ws /\ r.err = "") => \A fld \in Diff(Want(a), r) :
        TooWide(a, fld) \/ (fld \in {"resseq", "chain"} /\ (IcodeWs(a) \/ ChainGlue(a)))
Confined == pc = "done" => Explained(f, out, rd)
EmitInv == (Emit /\ pc = "done") =>
   PrintT("@" \o ToJson([f |-> f, line |-> line, out |-> out, rd |-> rd, bad |-> SetToSeq(Bad(f, out, rd))]))
================================================================================
