SPECIFICATION Spec
CONSTANTS
  Atoms = {"a1"}
  Size = 2
  Positions <- GridPositions
  AllowRawMove = FALSE
  MaxOps = 0
  Emit = FALSE
INVARIANT Covering
