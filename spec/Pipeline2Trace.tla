--------------------------------- MODULE Pipeline2Trace ---------------------------------
(***************************************************************************)
(* Trace validation for Pipeline2 (C09).  A trace is a *pair* of real runs *)
(* on the same input: per run the option record, the stage events with the *)
(* digests of the model parts after each stage, and the atom records of    *)
(* the written PQR (number columns as text, names, chain column).          *)
(* kind "format":  opts differ only in formatting/naming options.          *)
(* kind "dropwater": second run is --drop-water, first run got the input   *)
(*                   with its waters deleted.                              *)
(* kind "neutral": second run adds --neutraln/--neutralc (PARSE).          *)
(* Lines printed:  NI (a computing stage's digests differ between the      *)
(* runs), NUM / ORDER / COUNT / NAMES / CHAIN (the files differ where they *)
(* may not), SHIFT / INNER (neutral-terminus relation), END.               *)
(***************************************************************************)
EXTENDS Naturals, Integers, Sequences, FiniteSets, TLC, Json, IOUtils, SequencesExt
Traces == JsonDeserialize(IOEnv.TRACE_FILE)
VARIABLES tid, l
T == Traces[tid]
Say(c, msg) == IF c THEN TRUE ELSE PrintT(msg)
ComputeParts == {"heavy", "coords", "numbers"}

\* stage events are aligned by stage name: T.stages is the list of computing stages present in both runs
StageOk(i) ==
  LET s == T.stages[i] IN
  \A p \in ComputeParts : Say(T.dig1[s][p] = T.dig2[s][p], <<"NI", T.id, s, p>>)

Nums(a) == <<a.x, a.y, a.z, a.q, a.r>>
Key(a) == <<a.resseq, a.name0>>
FilesOk ==
  IF T.kind = "neutral" THEN
     /\ Say(T.q2 - T.q1 = T.shift, <<"SHIFT", T.id, T.q1, T.q2, T.shift>>)
     /\ \A i \in 1..Len(T.inner1) :
           Say(i <= Len(T.inner2) /\ T.inner1[i] = T.inner2[i], <<"INNER", T.id, i>>)
     /\ Say(Len(T.inner1) = Len(T.inner2), <<"INNER", T.id, 0>>)
  ELSE
     /\ Say(Len(T.atoms1) = Len(T.atoms2), <<"COUNT", T.id, Len(T.atoms1), Len(T.atoms2)>>)
     /\ \A i \in 1..Len(T.atoms1) : i <= Len(T.atoms2) =>
          /\ Say(Nums(T.atoms1[i]) = Nums(T.atoms2[i]), <<"NUM", T.id, i>>)
          /\ Say(T.atoms1[i].resseq = T.atoms2[i].resseq /\ T.atoms1[i].type = T.atoms2[i].type, <<"ORDER", T.id, i>>)
          /\ Say(T.namesmaydiffer \/ (T.atoms1[i].name = T.atoms2[i].name /\ T.atoms1[i].resname = T.atoms2[i].resname),
                 <<"NAMES", T.id, i>>)
          /\ Say(T.chainmaydiffer \/ T.atoms1[i].chain = T.atoms2[i].chain, <<"CHAIN", T.id, i>>)

TInit == tid \in 1..Len(Traces) /\ l = 1
TNext == /\ l <= Len(T.stages) + 1 /\ l' = l + 1 /\ UNCHANGED tid
         /\ IF l <= Len(T.stages) THEN StageOk(l) ELSE FilesOk
TSpec == TInit /\ [][TNext]_<<tid, l>>
AtEnd == (l = Len(T.stages) + 2) => PrintT(<<"END", T.id>>)
================================================================================
