---------------------------------- MODULE ForceField ----------------------------------
(***************************************************************************)
(* Force-field parameter map and its use (property C01).                   *)
(* Code anchors: forcefield.Forcefield.__init__ (DAT rows, later row wins),*)
(* ForcefieldHandler.endElement / update_map / find_matching_names         *)
(* (the .names sections: residue aliasing over the canonical definition    *)
(* names incl. $group, cumulative copies, then atom aliasing over the      *)
(* residues currently in the map), Forcefield.get_params,                  *)
(* Biomolecule.apply_force_field.                                          *)
(*                                                                         *)
(* The documented semantics are the actions LoadRow and Section; regular   *)
(* expression matching is not modelled: every section carries its match    *)
(* set over the universe of possible residue keys (computed with Python's  *)
(* re by the harness), each match with the resolved `from` name (so        *)
(* $group needs no string substitution here) and whether the matched name  *)
(* is a canonical definition name.                                         *)
(* ffmap : residue key -> atom name -> row id.  Row ids index Rows.        *)
(***************************************************************************)
EXTENDS Naturals, Sequences, FiniteSets, TLC, Json, SequencesExt

CONSTANTS Rows,       \* sequence of [res, atom, q, r]   (one per DAT line, in file order)
          Sections    \* sequence of [use (useresname or ""), group (BOOLEAN: $group form),
                      \*   matches : Seq([name, frm, def]), atoms : Seq(<<new, old>>)]

VARIABLES ffmap, i, j, err
vars == <<ffmap, i, j, err>>

Init == ffmap = <<>> /\ i = 1 /\ j = 1 /\ err = ""

Has(m, k) == k \in DOMAIN m
\* one DAT line: the residue is created on first sight, a later line for the same atom replaces the earlier one
LoadRow ==
  /\ i <= Len(Rows) /\ err = ""
  /\ LET rw == Rows[i] IN
     ffmap' = IF Has(ffmap, rw.res) THEN [ffmap EXCEPT ![rw.res] = (rw.atom :> i) @@ @]
              ELSE (rw.res :> (rw.atom :> i)) @@ ffmap
  /\ i' = i + 1 /\ UNCHANGED <<j, err>>

\* update_map(to, from): create `to` if absent, copy every atom entry of `from` over it (entries of `to` that
\* `from` does not have survive: sections are cumulative)
UpdateMap(m, to, frm) == IF Has(m, to) THEN [m EXCEPT ![to] = m[frm] @@ @] ELSE (to :> m[frm]) @@ m
ResStep(m, s) ==
  IF s.use = "" THEN m
  ELSE FoldLeft(LAMBDA acc, mt : IF mt.def /\ (Has(acc, mt.frm)) THEN UpdateMap(acc, mt.name, mt.frm) ELSE acc, m, s.matches)
\* a plain (non-$group) useresname that is not in the map makes update_map raise
ResRaises(m, s) == s.use # "" /\ ~s.group /\ \E n \in 1..Len(s.matches) : s.matches[n].def /\ ~Has(m, s.use)
AliasAtoms(as, pairs) == FoldLeft(LAMBDA acc, pr : IF pr[2] \in DOMAIN acc THEN (pr[1] :> acc[pr[2]]) @@ acc ELSE acc, as, pairs)
AtomStep(m, s) ==
  IF s.atoms = <<>> THEN m
  ELSE LET hit == {s.matches[n].name : n \in 1..Len(s.matches)} \cap DOMAIN m IN
       [res \in DOMAIN m |-> IF res \in hit THEN AliasAtoms(m[res], s.atoms) ELSE m[res]]
Section ==
  /\ i = Len(Rows) + 1 /\ j <= Len(Sections) /\ err = ""
  /\ IF ResRaises(ffmap, Sections[j]) THEN err' = "KeyError" /\ UNCHANGED ffmap
     ELSE ffmap' = AtomStep(ResStep(ffmap, Sections[j]), Sections[j]) /\ err' = err
  /\ j' = j + 1 /\ UNCHANGED i
Next == LoadRow \/ Section
Spec == Init /\ [][Next]_vars
Loaded == i = Len(Rows) + 1 /\ (j = Len(Sections) + 1 \/ err # "")

(***************************************************************************)
(* Lookup and the properties                                               *)
(***************************************************************************)
Lookup(m, key, atom) == IF Has(m, key) /\ atom \in DOMAIN m[key] THEN m[key][atom] ELSE 0       \* 0 = miss
\* every entry of the map is a DAT row (nothing invented, nothing defaulted)
NoInventedParams == \A res \in DOMAIN ffmap : \A a \in DOMAIN ffmap[res] : ffmap[res][a] \in 1..Len(Rows)
\* an entry never points at a row that an earlier row of the same residue/atom had before it was replaced
LaterRowWins == \A res \in DOMAIN ffmap : \A a \in DOMAIN ffmap[res] :
   LET rid == ffmap[res][a] IN
   (Rows[rid].res = res /\ Rows[rid].atom = a) => ~\E n \in (rid + 1)..Len(Rows) : n < i /\ Rows[n].res = res /\ Rows[n].atom = a
================================================================================
