----------------------------- MODULE PdbReaderTrace -----------------------------
(***************************************************************************)
(* Trace validation for PdbReader (code -> spec).  Each trace is one run   *)
(* of the real code: the lines of the input (events ReadLine) and the      *)
(* projection of the Biomolecule that io.get_molecule / drop_water /       *)
(* setup_molecule produced (event Group with the observed result).         *)
(* Stage 1 (faithful): the spec's own actions are replayed and the result  *)
(* of the spec's Group must equal the observed one (acc).                  *)
(* Stage 2 (property only): the C07 clauses are evaluated on the observed  *)
(* result itself, whatever the algorithm model says.                       *)
(* One line is printed per trace: <<"T", id, acc, wellformed, clauses>>.   *)
(***************************************************************************)
EXTENDS Naturals, Integers, Sequences, TLC, Json, IOUtils, SequencesExt

CONSTANTS MaxLen, BlankStops, EndEmptyRaises, GluedKeepsWater, EmptyModelContinues, DropWaterChoices, Emit
VARIABLES dw, file, errs, pdblist, stopped, pc, res, tid, acc
Traces == JsonDeserialize(IOEnv.TRACE_FILE)
TraceAlphabet == JsonDeserialize(IOEnv.ALPHA_FILE)
R == INSTANCE PdbReader WITH Alphabet <- TraceAlphabet
T == Traces[tid]
vars == R!vars
NoRes == R!NoRes
ReadLine(s) == R!ReadLine(s)
Group == R!Group
WellFormed(f) == R!WellFormed(f)
Clauses(f, r, d) == R!Clauses(f, r, d)

TInit == /\ tid \in 1..Len(Traces)
         /\ dw = Traces[tid].dw /\ errs = FALSE /\ file = <<>> /\ pdblist = <<>>
         /\ stopped = FALSE /\ pc = "read" /\ res = NoRes /\ acc = FALSE
TRead  == /\ Len(file) < Len(T.file)
          /\ ReadLine(T.file[Len(file) + 1])
          /\ UNCHANGED <<tid, acc>>
TGroup == /\ Len(file) = Len(T.file)
          /\ Group
          /\ acc' = (res' = T.res)
          /\ UNCHANGED tid
TNext == TRead \/ TGroup
TSpec == TInit /\ [][TNext]_<<vars, tid, acc>>

Report == pc = "done" =>
   PrintT(<<"T", T.id, acc, WellFormed(T.file), SetToSeq(Clauses(T.file, T.res, T.dw))>>)
================================================================================
