---- MODULE MC_Rigid ----
EXTENDS Rigid
(* templates (milli-Angstrom): ALA backbone N, CA, C -> CB; a thin triangle (apex angle 3.9 degrees at the   *)
(* first atom); an obtuse one (175 degrees); four reference atoms                                           *)
MCTemplates == <<
  [pts |-> << <<1201, 847, 0>>, <<0, 0, 0>>, <<-1250, 881, 0>> >>, atom |-> <<20, -927, 1209>>],
  [pts |-> << <<0, 0, 0>>, <<3000, 0, 0>>, <<2900, 200, 0>> >>, atom |-> <<500, 1000, -700>>],
  [pts |-> << <<0, 0, 0>>, <<3000, 0, 0>>, <<-2900, 250, 0>> >>, atom |-> <<-400, 900, 1100>>],
  [pts |-> << <<1201, 847, 0>>, <<0, 0, 0>>, <<-1250, 881, 0>>, <<20, -927, 1209>> >>, atom |-> <<833, -1507, 1171>>],
  \* reference atoms given in their own principal-axis frame (the fit's 4x4 matrix is diagonal for the identity and for half turns):
  [pts |-> << <<800, 0, 600>>, <<0, 0, 0>>, <<-800, 0, 600>> >>, atom |-> <<0, 900, -500>>],           \* water-like, two-fold axis along z
  [pts |-> << <<600, 600, 600>>, <<600, -600, -600>>, <<-600, 600, -600>>, <<-600, -600, 600>> >>, atom |-> <<300, 500, -200>>] >>   \* tetrahedron
MCQRange == -2..2
MCQSmall == -1..1
MCQBig == -3..3
====
