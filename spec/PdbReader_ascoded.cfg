SPECIFICATION Spec
CONSTANTS
  MaxLen = 3
  BlankStops = TRUE
  EndEmptyRaises = TRUE
  GluedKeepsWater = TRUE
  DropWaterChoices = {FALSE, TRUE}
  Emit = FALSE
INVARIANT AllIngested
