SPECIFICATION Spec
CONSTANTS
  MaxLen = 3
  BlankStops = TRUE
  EndEmptyRaises = TRUE
  GluedKeepsWater = TRUE
  EmptyModelContinues = TRUE
  DropWaterChoices = {FALSE, TRUE}
  Emit = FALSE
INVARIANT AllIngested
