SPECIFICATION Spec
CONSTANTS
  Steps = 4
  StepSize = 90000
  TestCount = 2
  Scores = {0, 1, 2}
  NAngles = 2
INVARIANT NeverWorse
INVARIANT BestIsSet
INVARIANT Untouched
INVARIANT Bounded
INVARIANT TrueMeansClean
