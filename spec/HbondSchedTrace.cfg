SPECIFICATION TSpec
INVARIANT Progress
POSTCONDITION Verdicts
CHECK_DEADLOCK FALSE
