------------------------------- MODULE PqrFormatTrace -------------------------------
(* Trace validation for PqrFormat.  A trace is one atom: its fields T.f (decimal text of   *)
(* the model's numbers), the text the real get_pqr_string produced (T.line), the text the  *)
(* real print_pqr wrote (T.out) and the fields the real io.read_pqr returned for it (T.rd).*)
(* The spec's three actions are replayed; acc* = (spec value equals observed value); the   *)
(* C08 clauses are evaluated on the observed text and reader result.                       *)
EXTENDS PqrFormat, IOUtils
VARIABLES tid
Traces == JsonDeserialize(IOEnv.TRACE_FILE)
T == Traces[tid]
TInit == /\ tid \in 1..Len(Traces) /\ f = Traces[tid].f
         /\ line = "" /\ out = "" /\ rd = [err |-> "unread"] /\ pc = "format"
TNext == Next /\ UNCHANGED tid
TSpec == TInit /\ [][TNext]_<<vars, tid>>
Report == pc = "done" =>
   PrintT(<<"T", T.id, (T.line = "-" \/ line = T.line), out = T.out, rd = T.rd, SetToSeq(Bad(T.f, T.out, T.rd))>>)
================================================================================
