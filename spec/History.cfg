SPECIFICATION Spec
CONSTANTS
  Configs = {"A", "B", "C", "U1", "U2", "D", "F1", "F2", "P"}
  MaxRuns = 3
  Leak = FALSE
  LeakFrom = "C"
  LeakTo = "A"
  Emit = FALSE
INVARIANT OutputFunctionOfConfig
INVARIANT SameAsFresh
