SPECIFICATION Spec
CONSTANTS
  MaxLen = 4
  BlankStops = FALSE
  EndEmptyRaises = FALSE
  GluedKeepsWater = FALSE
  EmptyModelContinues = FALSE
  DropWaterChoices = {FALSE, TRUE}
  Emit = FALSE
INVARIANT AllIngested
