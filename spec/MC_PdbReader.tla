----------------------------- MODULE MC_PdbReader -----------------------------
(* Bounded instance of PdbReader for model checking and case emission.      *)
EXTENDS Naturals, Integers, Sequences, TLC, Json
CONSTANTS MaxLen, BlankStops, EndEmptyRaises, GluedKeepsWater, EmptyModelContinues, DropWaterChoices, Emit,
          SymSet   \* the symbols (indices into MCAlphabet) files are built from in this run
VARIABLES dw, file, errs, pdblist, stopped, pc, res

(***************************************************************************)
(* The line alphabet.  Atom lines carry the fields the property talks      *)
(* about; fmt is a rendering variant that must not matter (full 80 column, *)
(* cut after the temperature factor (66), cut after z (54), CRLF ending,   *)
(* trailing blanks).  rs is the residue number, ic the insertion code.     *)
(***************************************************************************)
A(het, ch, rs, ic, nm, alt, rn, fmt) ==
  [k |-> "atom", het |-> het, ch |-> ch, rs |-> rs, ic |-> ic, nm |-> nm, alt |-> alt, rn |-> rn, fmt |-> fmt]
O(kind) == [k |-> kind, het |-> FALSE, ch |-> "", rs |-> 0, ic |-> "", nm |-> "", alt |-> "", rn |-> "", fmt |-> "full"]

MCAlphabet == <<
  A(FALSE, "A",  1, "",  "N",  "",  "ALA", "full"),   \*  1
  A(FALSE, "A",  1, "",  "CA", "A", "ALA", "cut66"),  \*  2  first alternate location
  A(FALSE, "A",  1, "",  "CA", "B", "ALA", "full"),   \*  3  second alternate location of 2
  A(FALSE, "A",  1, "A", "N",  "",  "ALA", "cut54"),  \*  4  insertion code: another residue
  A(FALSE, "A",  2, "",  "N",  "",  "GLY", "crlf"),   \*  5
  A(FALSE, "B",  1, "",  "N",  "",  "ALA", "trail"),  \*  6  other chain
  A(FALSE, "",  -1, "",  "N",  "",  "ALA", "full"),   \*  7  blank chain, negative number
  A(TRUE,  "A",  3, "",  "O",  "",  "HOH", "full"),   \*  8  water
  A(TRUE,  "A",  4, "",  "C1", "",  "LIG", "cut66"),  \*  9  hetero group
  A(FALSE, "A",  1, "",  "CB", "B", "ALA", "full"),   \* 10  atom present only under the second alt-loc label
  A(TRUE,  "B",  7, "",  "O",  "",  "HOH", "wide"),   \* 11  water whose serial number fills all five columns
  O("ter"), O("end"), O("model"), O("endmdl"), O("blank"), O("unknown"), O("remark"),
  A(FALSE, "A",  5, "",  "O",  "",  "WAT", "full"),   \* 19  water written as an ATOM record (as MD tools do)
  A(TRUE,  "",   6, "",  "O",  "",  "HOH", "full"),   \* 20  water without chain identifier
  [O("model") EXCEPT !.fmt = "bare"]                  \* 21  MODEL record without its serial number ("MODEL" / "MODEL 1")
>>
R == INSTANCE PdbReader WITH Alphabet <- MCAlphabet
ReadLine(s) == R!ReadLine(s)
Group       == R!Group
Next        == (\E s \in SymSet : ReadLine(s)) \/ Group
Spec        == R!Init /\ [][Next]_(R!vars)
AllIngested == R!AllIngested
EmitInv     == R!EmitInv
ASSUME Emit => PrintT("@A" \o ToJson(MCAlphabet))
================================================================================
