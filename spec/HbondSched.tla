--------------------------------- MODULE HbondSched ---------------------------------
(* The scheduler of the hydrogen-bond optimisation: HydrogenRoutines.optimize_hydrogens               *)
(* (pdb2pqr/hydrogens/__init__.py) after the detection loop has filled obj.hbonds.                      *)
(*                                                                                                      *)
(*   inst.n            number of optimisable objects (optlist order = 1..n)                             *)
(*   inst.hb[o]        the potential bonds of object o in the order they were stored; a record          *)
(*                     [a, b   atom ids (a belongs to o)    d   distance (dense rank of the float)      *)
(*                      al     b is in HydrogenRoutines.atomlist     ob  object that owns b (0: none)   *)
(*                      wa, wb residue of a / b is a water  na, nb  atom names]                         *)
(*   flags[x]          [d, a] = truth values of atom.hdonor / atom.hacceptor of atom x: environment state *)
(*                     like fixed (Flip.try_donor clears the acceptor flag of the donor it fixes, ...);   *)
(*                     parameter fl of the call actions = sequence of [x, d, a] with the new values       *)
(*   fixed[o]          truth value of obj.residue.fixed: environment state, changed only inside the     *)
(*                     calls the scheduler makes (parameter fx of the call actions = objects whose      *)
(*                     truth value is different after the call)                                         *)
(*                                                                                                      *)
(* One action per step of the code; every call the scheduler makes on an optimisation object is one     *)
(* action with the call's arguments.  The calls made so far are kept in `calls` (history) so that the   *)
(* schedule properties can be stated; the model-checking configuration hides it behind a VIEW-free      *)
(* bound (instances are tiny).                                                                          *)
EXTENDS Naturals, Integers, Sequences, FiniteSets, TLC
VARIABLES inst, fixed, flags, pc, oi, nets, ni, q, sub, res, ci, calls
vars == <<inst, fixed, flags, pc, oi, nets, ni, q, sub, res, ci, calls>>

Objs == 1..inst.n
Range(s) == {s[k] : k \in DOMAIN s}
Flip(f, fx) == [o \in DOMAIN f |-> IF o \in fx THEN ~f[o] ELSE f[o]]
NewFlags(f, fl) == [x \in DOMAIN f |-> IF \E k \in DOMAIN fl : fl[k].x = x
                                       THEN LET k == CHOOSE k \in DOMAIN fl : fl[k].x = x IN [d |-> fl[k].d, a |-> fl[k].a]
                                       ELSE f[x]]
DonA(r) == flags[inst.hb[r.o][r.j].a].d
AccA(r) == flags[inst.hb[r.o][r.j].a].a
DonB(r) == flags[inst.hb[r.o][r.j].b].d
AccB(r) == flags[inst.hb[r.o][r.j].b].a

\* connectivity[obj]: owners of partner atoms that are themselves optimisable, first occurrence order
RECURSIVE Dedup(_, _)
Dedup(s, acc) == IF s = <<>> THEN acc
                 ELSE Dedup(Tail(s), IF Head(s) \in Range(acc) THEN acc ELSE Append(acc, Head(s)))
Conn(o) == Dedup([k \in 1..Len(SelectSeq(inst.hb[o], LAMBDA h : h.al)) |-> SelectSeq(inst.hb[o], LAMBDA h : h.al)[k].ob], <<>>)

\* utilities.analyze_connectivity: queue, first element processed, values not yet listed appended
RECURSIVE AC(_, _)
AC(clist, keys) ==
  IF keys = <<>> THEN clist
  ELSE LET k == Head(keys) IN
       IF k \in Range(clist) THEN AC(clist, Tail(keys))
       ELSE LET c2 == Append(clist, k) IN
            AC(c2, Tail(keys) \o (IF k \in Objs THEN SelectSeq(Conn(k), LAMBDA v : v \notin Range(c2)) ELSE <<>>))

\* the loop "for obj1 in optlist: if fixed: continue; if seen: continue; network = ...; seen += network"
RECURSIVE Nets(_, _, _)
Nets(o, seen, acc) ==
  IF o > inst.n THEN acc
  ELSE IF fixed[o] \/ o \in seen THEN Nets(o + 1, seen, acc)
  ELSE LET nw == AC(<<>>, <<o>>) IN Nets(o + 1, seen \cup Range(nw), Append(acc, nw))

\* all bonds of a network in dictionary insertion order: for obj in network: for hbond in obj.hbonds
RECURSIVE Flat(_)
Flat(nw) == IF nw = <<>> THEN <<>>
            ELSE LET o == Head(nw) IN
                 [k \in 1..(IF o \in Objs THEN Len(inst.hb[o]) ELSE 0) |-> [o |-> o, j |-> k]] \o Flat(Tail(nw))
H(r) == inst.hb[r.o][r.j]

\* "only one of a pair": (atom2, atom1) not in seenlist, where seenlist holds the accepted (atom1, atom2)
RECURSIVE OnePair(_, _, _)
OnePair(s, seenl, acc) ==
  IF s = <<>> THEN acc
  ELSE LET h == H(Head(s)) IN
       IF <<h.b, h.a>> \in seenl THEN OnePair(Tail(s), seenl, acc)
       ELSE OnePair(Tail(s), seenl \cup {<<h.a, h.b>>}, Append(acc, Head(s)))

\* sort_dict_by_value (stable, descending) then reverse(): ascending distance, ties in reverse insertion order
Indexed(s) == [k \in DOMAIN s |-> [r |-> s[k], k |-> k]]
Sorted(s) == LET t == SortSeq(Indexed(s), LAMBDA x, y : H(x.r).d < H(y.r).d \/ (H(x.r).d = H(y.r).d /\ x.k > y.k))
             IN [k \in DOMAIN t |-> t[k].r]

Q1(nw) == Sorted(SelectSeq(Flat(nw), LAMBDA r : ~H(r).al))
Q2(nw) == Sorted(OnePair(SelectSeq(Flat(nw), LAMBDA r : H(r).al /\ ~H(r).wa /\ ~H(r).wb), {}, <<>>))
Q3(nw) == Sorted(OnePair(SelectSeq(Flat(nw), LAMBDA r : H(r).wa /\ H(r).wb), {}, <<>>))

Init0 == /\ pc = "nohb" /\ oi = 1 /\ nets = <<>> /\ ni = 0 /\ q = <<>> /\ sub = "" /\ res = 0 /\ ci = 0 /\ calls = <<>>

Call(c) == calls' = Append(calls, c)

\* ---- objects without any potential bond are put in their default state
NoHbSkip == /\ pc = "nohb" /\ oi <= inst.n /\ (Len(inst.hb[oi]) # 0 \/ fixed[oi])
            /\ oi' = oi + 1 /\ UNCHANGED <<inst, fixed, flags, pc, nets, ni, q, sub, res, ci, calls>>
NoHbFin(fx, fl) ==
               /\ pc = "nohb" /\ oi <= inst.n /\ Len(inst.hb[oi]) = 0 /\ ~fixed[oi]
               /\ Call([e |-> "fin", o |-> oi, a |-> 0, b |-> 0, p |-> 0]) /\ fixed' = Flip(fixed, fx) /\ flags' = NewFlags(flags, fl)
               /\ oi' = oi + 1 /\ UNCHANGED <<inst, pc, nets, ni, q, sub, res, ci>>
MkNets == /\ pc = "nohb" /\ oi > inst.n
          /\ nets' = Nets(1, {}, <<>>) /\ ni' = 0 /\ pc' = "next"
          /\ UNCHANGED <<inst, fixed, flags, oi, q, sub, res, ci, calls>>
NextNet == /\ pc = "next"
           /\ IF ni < Len(nets) THEN /\ ni' = ni + 1 /\ pc' = "p1" /\ q' = Q1(nets[ni + 1])
                                ELSE /\ pc' = "done" /\ UNCHANGED <<ni, q>>
           /\ sub' = "" /\ UNCHANGED <<inst, fixed, flags, oi, nets, res, ci, calls>>

\* ---- FIRST: optimisable to backbone
P1Skip == /\ pc = "p1" /\ q # <<>> /\ sub = "" /\ fixed[Head(q).o]
          /\ q' = Tail(q) /\ UNCHANGED <<inst, fixed, flags, pc, oi, nets, ni, sub, res, ci, calls>>
P1Don(fx, fl) ==
             /\ pc = "p1" /\ q # <<>> /\ sub = "" /\ ~fixed[Head(q).o] /\ DonA(Head(q))
             /\ Call([e |-> "don", o |-> Head(q).o, a |-> H(Head(q)).a, b |-> H(Head(q)).b, p |-> 0])
             /\ fixed' = Flip(fixed, fx) /\ flags' = NewFlags(flags, fl)
             /\ IF NewFlags(flags, fl)[H(Head(q)).a].a THEN sub' = "acc" /\ q' = q ELSE sub' = "" /\ q' = Tail(q)   \* read after the call
             /\ UNCHANGED <<inst, pc, oi, nets, ni, res, ci>>
\* the acceptor call follows the donor call without the fixed flag being looked at again
P1Acc(fx, fl) ==
             /\ pc = "p1" /\ q # <<>> /\ AccA(Head(q))
             /\ \/ sub = "acc"
                \/ sub = "" /\ ~fixed[Head(q).o] /\ ~DonA(Head(q))
             /\ Call([e |-> "acc", o |-> Head(q).o, a |-> H(Head(q)).a, b |-> H(Head(q)).b, p |-> 0])
             /\ fixed' = Flip(fixed, fx) /\ flags' = NewFlags(flags, fl) /\ sub' = "" /\ q' = Tail(q)
             /\ UNCHANGED <<inst, pc, oi, nets, ni, res, ci>>
P1None == /\ pc = "p1" /\ q # <<>> /\ sub = "" /\ ~fixed[Head(q).o] /\ ~DonA(Head(q)) /\ ~AccA(Head(q))
          /\ q' = Tail(q) /\ UNCHANGED <<inst, fixed, flags, pc, oi, nets, ni, sub, res, ci, calls>>
P1End == /\ pc = "p1" /\ q = <<>> /\ pc' = "p2" /\ q' = Q2(nets[ni]) /\ sub' = "has1"
         /\ UNCHANGED <<inst, fixed, flags, oi, nets, ni, res, ci, calls>>

\* ---- SECOND: optimisable to optimisable (no water on either side); THIRD: water to water.
\* has1 / has2 = the two has_atom() questions of the second phase (r = the answer); the third phase has none.
Has1(r) == /\ pc = "p2" /\ q # <<>> /\ sub = "has1"
           /\ IF r THEN sub' = "has2" /\ q' = q ELSE sub' = "has1" /\ q' = Tail(q)
           /\ UNCHANGED <<inst, fixed, flags, pc, oi, nets, ni, res, ci, calls>>
Has2(r) == /\ pc = "p2" /\ q # <<>> /\ sub = "has2"
           /\ IF r THEN sub' = "first" /\ q' = q ELSE sub' = "has1" /\ q' = Tail(q)
           /\ UNCHANGED <<inst, fixed, flags, pc, oi, nets, ni, res, ci, calls>>
Start(p) == IF p = "p2" THEN "has1" ELSE "first"
First(rv, fx, fl) ==
                 /\ pc \in {"p2", "p3"} /\ q # <<>> /\ sub = "first" /\ DonA(Head(q)) /\ AccB(Head(q))
                 /\ Call([e |-> "both", o |-> Head(q).o, a |-> H(Head(q)).a, b |-> H(Head(q)).b, p |-> H(Head(q)).ob])
                 /\ fixed' = Flip(fixed, fx) /\ flags' = NewFlags(flags, fl) /\ res' = rv /\ sub' = "second"
                 /\ UNCHANGED <<inst, pc, oi, nets, ni, q, ci>>
FirstNone == /\ pc \in {"p2", "p3"} /\ q # <<>> /\ sub = "first" /\ ~(DonA(Head(q)) /\ AccB(Head(q)))
             /\ res' = 0 /\ sub' = "second" /\ UNCHANGED <<inst, fixed, flags, pc, oi, nets, ni, q, ci, calls>>
Second(fx, fl) ==
              /\ pc \in {"p2", "p3"} /\ q # <<>> /\ sub = "second" /\ AccA(Head(q)) /\ DonB(Head(q)) /\ res = 0
              /\ Call([e |-> "both", o |-> H(Head(q)).ob, a |-> H(Head(q)).b, b |-> H(Head(q)).a, p |-> Head(q).o])
              /\ fixed' = Flip(fixed, fx) /\ flags' = NewFlags(flags, fl) /\ sub' = Start(pc) /\ q' = Tail(q)
              /\ UNCHANGED <<inst, pc, oi, nets, ni, res, ci>>
SecondNone == /\ pc \in {"p2", "p3"} /\ q # <<>> /\ sub = "second" /\ ~(AccA(Head(q)) /\ DonB(Head(q)) /\ res = 0)
              /\ sub' = Start(pc) /\ q' = Tail(q) /\ UNCHANGED <<inst, fixed, flags, pc, oi, nets, ni, res, ci, calls>>
P2End == /\ pc = "p2" /\ q = <<>> /\ pc' = "p3" /\ q' = Q3(nets[ni]) /\ sub' = "first"
         /\ UNCHANGED <<inst, fixed, flags, oi, nets, ni, res, ci, calls>>
P3End == /\ pc = "p3" /\ q = <<>> /\ pc' = "cmp" /\ ci' = 1 /\ sub' = ""
         /\ UNCHANGED <<inst, fixed, flags, oi, nets, ni, q, res, calls>>

\* ---- FOURTH: complete every member of the network, in network order
Cmp(fx, fl) ==
           /\ pc = "cmp" /\ ci <= Len(nets[ni])
           /\ Call([e |-> "cmp", o |-> nets[ni][ci], a |-> 0, b |-> 0, p |-> 0]) /\ fixed' = Flip(fixed, fx) /\ flags' = NewFlags(flags, fl)
           /\ ci' = ci + 1 /\ UNCHANGED <<inst, pc, oi, nets, ni, q, sub, res>>
CmpEnd == /\ pc = "cmp" /\ ci > Len(nets[ni]) /\ pc' = "next"
          /\ UNCHANGED <<inst, fixed, flags, oi, nets, ni, q, sub, res, ci, calls>>

Silent == NoHbSkip \/ MkNets \/ NextNet \/ P1Skip \/ P1None \/ P1End \/ FirstNone \/ SecondNone \/ P2End \/ P3End \/ CmpEnd

\* ---- schedule properties (on the history of calls)
CallsOf(e) == {k \in DOMAIN calls : calls[k].e = e}
\* every object that was not already settled when the networks were formed is completed
Settled == pc = "done" => \A o \in Objs : (\E k \in CallsOf("cmp") : calls[k].o = o) \/ (\E k \in CallsOf("fin") : calls[k].o = o)
                                        \/ (\A m \in DOMAIN nets : o \notin Range(nets[m]))
\* every member of a network is an object; roots are pairwise in different networks
NetsSane == \A m \in DOMAIN nets : /\ Range(nets[m]) \subseteq Objs /\ nets[m] # <<>>
                                   /\ \A m2 \in 1..(m - 1) : nets[m][1] \notin Range(nets[m2])
\* inside a network the phases follow each other: no try call after the first complete call of the same network
\* (a later network may still call try_both on an object completed earlier: connectivity is not symmetric)
CompleteOnce == \A k1, k2 \in CallsOf("cmp") : k1 # k2 /\ calls[k1].o = calls[k2].o => \E m1, m2 \in DOMAIN nets : m1 # m2 /\ calls[k1].o \in Range(nets[m1]) \cap Range(nets[m2])
=====================================================================================
