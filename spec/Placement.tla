---------------------------------- MODULE Placement ----------------------------------
(***************************************************************************)
(* How added hydrogens are constructed (property C05, construction-path    *)
(* clause).  Code anchors: Biomolecule.add_hydrogens (loop over the        *)
(* topology's hydrogens in map order; tetrahedral code path first, else    *)
(* three-point superposition of the first three available atoms of         *)
(* DefinitionResidue.get_nearest_bonds), Amino.rebuild_tetrahedral (case   *)
(* split on the number of bonds the parent currently has).                 *)
(*                                                                         *)
(* A case is one residue: its topology atoms in map order with bonds, the  *)
(* atoms present before hydrogens are added, whether the peptide           *)
(* neighbours N+1 / C-1 exist.  One action per hydrogen of the topology.   *)
(*                                                                         *)
(* mode "rebuild": Biomolecule.repair_heavy for one residue - the work     *)
(* queue residue.missing; an atom with fewer than three available          *)
(* reference atoms goes back to the end of the queue (seenmap), the run    *)
(* fails once an atom has been deferred more often than there were missing *)
(* atoms; otherwise three-point superposition on the same FirstThree.      *)
(***************************************************************************)
EXTENDS Naturals, Sequences, FiniteSets, TLC, Json, SequencesExt

CONSTANTS Cases    \* sequence of [order (atom names in map order), bonds (name -> Seq of names), present (names),
                   \*              nplus (N+1 available), cminus (C-1 available), amino, skip (names not to add), label,
                   \*              geonplus / geocminus (a peptide bond to the next / previous residue exists by distance),
                   \*              mode, missing]
VARIABLES c, k, have, placed, queue, seen
vars == <<c, k, have, placed, queue, seen>>
Case == Cases[c]
B(a) == Case.bonds[a]
IsH(a) == SubSeq(a, 1, 1) = "H"
Pseudo == {"N+1", "C-1"}
Avail(a, h) == (a = "N+1" /\ Case.nplus) \/ (a = "C-1" /\ Case.cminus) \/ (a \notin Pseudo /\ a \in h)

\* DefinitionResidue.get_nearest_bonds: 1-, 2-, 3-bond neighbours in list order
Lev1(a) == B(a)
Lev2(a) == FoldLeft(LAMBDA acc, x : FoldLeft(LAMBDA acc2, y : IF y \in ToSet(acc2) \/ y \in ToSet(Lev1(a)) \/ y = a THEN acc2 ELSE Append(acc2, y), acc, B(x)),
                    <<>>, Lev1(a))
Lev3(a) == FoldLeft(LAMBDA acc, x : FoldLeft(LAMBDA acc2, y : IF y \in ToSet(acc2) \/ y \in ToSet(Lev1(a)) \/ y \in ToSet(Lev2(a)) THEN acc2 ELSE Append(acc2, y), acc, B(x)),
                    <<>>, Lev2(a))
Nearest(a) == Lev1(a) \o Lev2(a) \o Lev3(a)
FirstThree(a, h) == LET av == SelectSeq(Nearest(a), LAMBDA x : Avail(x, h)) IN IF Len(av) >= 3 THEN SubSeq(av, 1, 3) ELSE av

\* rebuild_tetrahedral: the parent carries three hydrogens and one other neighbour in the topology
Parent(a) == B(a)[1]
HCount(p) == Cardinality({i \in 1..Len(B(p)) : IsH(B(p)[i])})
NextAtom(p) == LET o == SelectSeq(B(p), LAMBDA x : ~IsH(x) /\ x \notin Pseudo) IN IF o = <<>> THEN "" ELSE o[Len(o)]
Tetra(a, h) == Case.amino /\ Parent(a) \in h /\ HCount(Parent(a)) = 3 /\ NextAtom(Parent(a)) # ""
\* the parent's current bonds: its topology neighbours that exist now
NumBonds(p, h) == Cardinality({x \in ToSet(B(p)) : Avail(x, h)})
Path(a, h) ==
  IF Tetra(a, h) /\ NumBonds(Parent(a), h) = 1 THEN [path |-> "tet-two-point", refs |-> <<Parent(a), NextAtom(Parent(a))>>]
  ELSE IF Tetra(a, h) /\ NumBonds(Parent(a), h) = 2 THEN [path |-> "tet-rotate", refs |-> <<>>]
  ELSE IF Tetra(a, h) /\ NumBonds(Parent(a), h) = 3
          /\ Cardinality({x \in ToSet(B(Parent(a))) : IsH(x) /\ x \in h}) = 2 THEN [path |-> "tet-rotate", refs |-> <<>>]
  ELSE IF Len(FirstThree(a, h)) = 3 THEN [path |-> "fit3", refs |-> FirstThree(a, h)]
  ELSE [path |-> "fail", refs |-> <<>>]

Init == /\ c \in 1..Len(Cases) /\ k = 1 /\ have = ToSet(Cases[c].present) /\ placed = <<>>
        /\ queue = Cases[c].missing /\ seen = [a \in ToSet(Cases[c].missing) |-> 0]
Place ==
  /\ Case.mode = "addh" /\ k <= Len(Case.order)
  /\ LET a == Case.order[k] IN
     IF ~IsH(a) \/ a \in have \/ a \in ToSet(Case.skip) THEN UNCHANGED <<have, placed>>
     ELSE LET p == Path(a, have) IN
          /\ placed' = Append(placed, [name |-> a, path |-> p.path, refs |-> p.refs])
          /\ have' = IF p.path = "fail" THEN have ELSE have \cup {a}
  /\ k' = k + 1 /\ UNCHANGED <<c, queue, seen>>
Failed == placed # <<>> /\ placed[Len(placed)].path = "error"
Rebuild ==
  /\ Case.mode = "rebuild" /\ queue # <<>> /\ ~Failed
  /\ LET a == Head(queue)  ft == FirstThree(a, have) IN
     IF Len(ft) < 3
     THEN /\ seen' = [seen EXCEPT ![a] = @ + 1]
          /\ queue' = Append(Tail(queue), a)
          /\ placed' = IF seen[a] + 1 > Len(Case.missing) THEN Append(placed, [name |-> a, path |-> "error", refs |-> <<>>]) ELSE placed
          /\ UNCHANGED have
     ELSE /\ placed' = Append(placed, [name |-> a, path |-> "fit3", refs |-> ft])
          /\ have' = have \cup {a} /\ queue' = Tail(queue) /\ UNCHANGED seen
  /\ UNCHANGED <<c, k>>
Next == Place \/ Rebuild
Spec == Init /\ [][Next]_vars

\* for a placement record r of the case: the bond to the parent is template-determined
ParentUsed(r) == r.path \in {"tet-two-point", "tet-rotate"}
                 \/ (r.path = "fit3" /\ \E x \in ToSet(B(r.name)) : x \in ToSet(r.refs))
\* (a record whose path the harness could not read off the call stack is not judged: it shows up as drift)
Bad(pl) == {<<"ParentAmongRefs", pl[i].name>> : i \in {j \in 1..Len(pl) : pl[j].path = "fit3" /\ ~ParentUsed(pl[j])}}
           \cup {<<"PeptideNeighbourBonded", pl[i].name>> : i \in {j \in 1..Len(pl) :
                      ("N+1" \in ToSet(pl[j].refs) /\ ~Case.geonplus) \/ ("C-1" \in ToSet(pl[j].refs) /\ ~Case.geocminus)}}
           \cup {<<"EveryHydrogenPlaced", pl[i].name>> : i \in {j \in 1..Len(pl) : pl[j].path = "fail"}}
Done == IF Case.mode = "addh" THEN k = Len(Case.order) + 1 ELSE (queue = <<>> \/ Failed)
TemplateDetermined == Done => Bad(placed) = {}
================================================================================
