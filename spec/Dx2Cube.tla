--------------------------------- MODULE Dx2Cube ---------------------------------
(***************************************************************************)
(* OpenDX -> Gaussian cube conversion (property C18).                      *)
(* Code anchors: io.read_dx (keyword driven line reader), io.write_cube    *)
(* (header, signed counts + spacing lines, one line per atom, values six   *)
(* per line with the last-chunk branch).                                   *)
(*                                                                         *)
(* A DX file is a sequence of abstract lines; grid values are their own    *)
(* indices 1..nx*ny*nz (the harness maps them to distinct decimal numbers  *)
(* of both signs and many magnitudes).  One action per line read, one per  *)
(* line written.                                                           *)
(***************************************************************************)
EXTENDS Naturals, Integers, Sequences, FiniteSets, TLC, Json, SequencesExt

CONSTANTS MaxN,      \* grid counts range over 1..MaxN per axis
          RowLens,   \* numbers of values per DX data row that are tried (APBS writes 3)
          MaxAtoms,  \* 0..MaxAtoms atoms in the PQR file
          Emit

VARIABLES shape,   \* [nx, ny, nz, row, natoms, trailer] : the abstract input (chosen in Init)
          dx,      \* remaining DX lines to read
          dict,    \* read_dx's dictionary: [counts, origin, deltas, values]
          out,     \* cube lines written so far
          pc       \* "read" | "write" | "done"
vars == <<shape, dx, dict, out, pc>>

N(s) == s.nx * s.ny * s.nz
RECURSIVE Rows(_, _, _)
Rows(from, to, k) == IF from > to THEN <<>>
                     ELSE LET hi == IF from + k - 1 > to THEN to ELSE from + k - 1
                          IN <<[k |-> "data", v |-> [i \in 1..(hi - from + 1) |-> from + i - 1]]>> \o Rows(hi + 1, to, k)
Ln(kind) == [k |-> kind, v |-> <<>>]
\* the file as APBS writes it: comments, three object headers, origin, deltas, data, trailers
DxFile(s) ==
  <<Ln("comment"), Ln("object1"), Ln("origin"), Ln("delta1"), Ln("delta2"), Ln("delta3"),
    Ln("object2"), Ln("object3")>>
  \o Rows(1, N(s), s.row)
  \o (IF s.trailer THEN <<Ln("attribute"), Ln("object4"), Ln("component"), Ln("component"), Ln("component")>> ELSE <<>>)

Init == /\ shape \in [nx : 1..MaxN, ny : 1..MaxN, nz : 1..MaxN, row : RowLens, natoms : 0..MaxAtoms,
                      trailer : BOOLEAN]
        /\ dx = DxFile(shape)
        /\ dict = [counts |-> <<>>, origin |-> FALSE, deltas |-> <<>>, values |-> <<>>]
        /\ out = <<>> /\ pc = "read"

(***************************************************************************)
(* read_dx: one line.  "#", attribute, component: skipped; object 1:       *)
(* counts; other objects: ignored; origin; delta (appended); anything      *)
(* else: every word is a value.                                            *)
(***************************************************************************)
ReadLine ==
  /\ pc = "read" /\ dx # <<>>
  /\ LET ln == Head(dx) IN
     dict' = CASE ln.k = "object1" -> [dict EXCEPT !.counts = <<shape.nx, shape.ny, shape.nz>>]
               [] ln.k = "origin"  -> [dict EXCEPT !.origin = TRUE]
               [] ln.k \in {"delta1", "delta2", "delta3"} -> [dict EXCEPT !.deltas = Append(@, ln.k)]
               [] ln.k = "data"    -> [dict EXCEPT !.values = @ \o ln.v]
               [] OTHER            -> dict
  /\ dx' = Tail(dx)
  /\ UNCHANGED <<shape, out, pc>>
EndRead == pc = "read" /\ dx = <<>> /\ pc' = "write" /\ UNCHANGED <<shape, dx, dict, out>>

(***************************************************************************)
(* write_cube                                                              *)
(***************************************************************************)
NHeader == 2 + 1 + 3    \* two comment lines, atom count + origin, three count/spacing lines
WriteHeader ==
  /\ pc = "write" /\ Len(out) = 0
  /\ out' = <<[k |-> "comment"], [k |-> "comment"],
              [k |-> "natoms", n |-> shape.natoms, origin |-> dict.origin],
              [k |-> "axis", n |-> -dict.counts[1], d |-> dict.deltas[1]],
              [k |-> "axis", n |-> -dict.counts[2], d |-> dict.deltas[2]],
              [k |-> "axis", n |-> -dict.counts[3], d |-> dict.deltas[3]]>>
  /\ UNCHANGED <<shape, dx, dict, pc>>
WriteAtom ==
  /\ pc = "write" /\ Len(out) >= NHeader /\ Len(out) < NHeader + shape.natoms
  /\ out' = Append(out, [k |-> "atom", i |-> Len(out) - NHeader + 1])
  /\ UNCHANGED <<shape, dx, dict, pc>>
Written == FoldLeft(LAMBDA n, ln : IF ln.k = "vals" THEN n + Len(ln.v) ELSE n, 0, out)
WriteChunk ==
  /\ pc = "write" /\ Len(out) = NHeader + shape.natoms + (Written \div 6) /\ Written % 6 = 0
  /\ Written < Len(dict.values)
  /\ LET i == Written
         vs == dict.values
     IN out' = Append(out, IF i + 6 < Len(vs)
                           THEN [k |-> "vals", v |-> SubSeq(vs, i + 1, i + 6), nl |-> TRUE]
                           ELSE [k |-> "vals", v |-> SubSeq(vs, i + 1, Len(vs)), nl |-> FALSE])
  /\ UNCHANGED <<shape, dx, dict, pc>>
Finish ==
  /\ pc = "write" /\ Len(out) >= NHeader + shape.natoms /\ Written >= Len(dict.values)
  /\ pc' = "done" /\ UNCHANGED <<shape, dx, dict, out>>

Next == ReadLine \/ EndRead \/ WriteHeader \/ WriteAtom \/ WriteChunk \/ Finish
Spec == Init /\ [][Next]_vars

(***************************************************************************)
(* The property, on any cube (the model's out, or one parsed from the file *)
(* the real code wrote) for input shape s.                                 *)
(***************************************************************************)
CubeValues(o) == FoldLeft(LAMBDA acc, ln : IF ln.k = "vals" THEN acc \o ln.v ELSE acc, <<>>, o)
Axes(o)  == SelectSeq(o, LAMBDA ln : ln.k = "axis")
AtomsOf(o) == SelectSeq(o, LAMBDA ln : ln.k = "atom")
CountsPreserved(s, o) == Len(Axes(o)) = 3 /\ Axes(o)[1].n = -s.nx /\ Axes(o)[2].n = -s.ny /\ Axes(o)[3].n = -s.nz
SpacingPreserved(s, o) == Len(Axes(o)) = 3 /\ Axes(o)[1].d = "delta1" /\ Axes(o)[2].d = "delta2" /\ Axes(o)[3].d = "delta3"
OriginPreserved(s, o) == \E i \in 1..Len(o) : o[i].k = "natoms" /\ o[i].origin = TRUE /\ o[i].n = s.natoms
AtomsOnce(s, o) == AtomsOf(o) = [i \in 1..s.natoms |-> [k |-> "atom", i |-> i]]
ValuesExactlyN(s, o) == CubeValues(o) = [i \in 1..N(s) |-> i]
SixPerLine(s, o) == \A i \in 1..Len(o) : o[i].k = "vals" => (Len(o[i].v) = 6 \/ (i = Len(o) /\ Len(o[i].v) \in 1..6))
Bad(s, o) ==
  (IF CountsPreserved(s, o) THEN {} ELSE {"CountsPreserved"}) \cup
  (IF SpacingPreserved(s, o) THEN {} ELSE {"SpacingPreserved"}) \cup
  (IF OriginPreserved(s, o) THEN {} ELSE {"OriginPreserved"}) \cup
  (IF AtomsOnce(s, o) THEN {} ELSE {"AtomsOnce"}) \cup
  (IF ValuesExactlyN(s, o) THEN {} ELSE {"ValuesExactlyN"}) \cup
  (IF SixPerLine(s, o) THEN {} ELSE {"SixPerLine"})

GridPreserved == pc = "done" => Bad(shape, out) = {}
EmitInv == (Emit /\ pc = "done") => PrintT("@" \o ToJson([shape |-> shape, dx |-> DxFile(shape), out |-> out]))
================================================================================
