------------------------------ MODULE Dx2CubeTrace ------------------------------
(* Trace validation for Dx2Cube: each trace is one real conversion (read_pqr, read_dx,    *)
(* write_cube) of a generated DX/PQR pair; T.obs is the cube file parsed by an            *)
(* independent reader.  The spec's actions are run on T.shape; acc = (the spec's cube     *)
(* equals the observed one); the C18 clauses are evaluated on the observed cube.          *)
EXTENDS Dx2Cube, IOUtils
VARIABLES tid
Traces == JsonDeserialize(IOEnv.TRACE_FILE)
T == Traces[tid]
TInit == /\ tid \in 1..Len(Traces)
         /\ shape = Traces[tid].shape /\ dx = DxFile(Traces[tid].shape)
         /\ dict = [counts |-> <<>>, origin |-> FALSE, deltas |-> <<>>, values |-> <<>>]
         /\ out = <<>> /\ pc = "read"
TNext == Next /\ UNCHANGED tid
TSpec == TInit /\ [][TNext]_<<vars, tid>>
Report == pc = "done" => PrintT(<<"T", T.id, out = T.obs, SetToSeq(Bad(T.shape, T.obs))>>)
================================================================================
