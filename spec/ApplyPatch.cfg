SPECIFICATION Spec
INVARIANT Report
