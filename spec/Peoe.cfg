SPECIFICATION Spec
CONSTANTS
  NAtoms = 3
  NumCycles = 2
  Transfers = {0, 1, 2}
  SkipUnbonded = FALSE
INVARIANT ComponentSumInvariant
