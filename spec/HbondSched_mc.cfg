SPECIFICATION Spec
CONSTANTS
  N = 3
  Pattern = 1
  Symmetric = TRUE
INVARIANT Settled
INVARIANT NetsSane
INVARIANT CompleteOnce
INVARIANT Disjoint
INVARIANT Bounded
CHECK_DEADLOCK TRUE
