---------------------------------- MODULE MC_Termini ----------------------------------
(* Bounded case sets for Termini: single chains (amino runs up to MaxA residues with OXT anywhere, nucleotide  *)
(* runs up to 3, hetero tails), two-chain inputs from a smaller set, cyclic flag, both neutral options.        *)
EXTENDS Termini
CONSTANTS MaxA,   \* longest amino run of the single-chain cases
          MaxS    \* longest run in each chain of the two-chain cases
Seqs(S, L) == UNION {[1..n -> S] : n \in 1..L}
Tails == {<<>>, <<"W">>, <<"L">>, <<"C">>, <<"W", "W">>}
Ix(a, b) == [i \in 1..(b - a + 1) |-> a + i - 1]
\* a peptide cap after a nucleotide is not an input worth a verdict
\* ... nor is a residue that carries OXT and is followed by a cap
BadNuc == {[kind |-> p \o <<"C">>, chains |-> <<Ix(1, Len(p) + 1)>>, cyc |-> {}, nn |-> nn, nc |-> nc] :
             p \in Seqs({"N", "N3"}, 3) \cup {q \in Seqs({"A", "AO"}, MaxA) : q[Len(q)] = "AO"}, nn \in BOOLEAN, nc \in BOOLEAN}
Single == {[kind |-> p \o t, chains |-> <<Ix(1, Len(p \o t))>>, cyc |-> IF cy /\ Len(p) >= 2 /\ (\A i \in 1..Len(p) : p[i] = "A") THEN {<<1, Len(p)>>} ELSE {}, nn |-> nn, nc |-> nc] :
             p \in Seqs({"A", "AO"}, MaxA) \cup Seqs({"N", "N3"}, 3), t \in Tails,
             cy \in BOOLEAN, nn \in BOOLEAN, nc \in BOOLEAN} \ {x \in BadNuc : TRUE}
Small == {p \o t : p \in Seqs({"A", "AO"}, MaxS) \cup Seqs({"N", "N3"}, 2), t \in {<<>>, <<"W">>}}
Double == {[kind |-> a \o b, chains |-> <<Ix(1, Len(a)), Ix(Len(a) + 1, Len(a) + Len(b))>>, cyc |-> {}, nn |-> nn, nc |-> nc] :
             a \in Small, b \in Small, nn \in BOOLEAN, nc \in BOOLEAN}
AllCases == Single \cup Double
================================================================================
