---------------------------------- MODULE PeoeTrace ----------------------------------
(* Trace validation for Peoe / ligand parameters (C16).                                          *)
(* kind "peoe": one real Mol2Molecule.assign_parameters: T.comp = connected components (sets of   *)
(*   atom indices computed from the BOND records by the harness), T.formal = formal charges x 2   *)
(*   (half-integers occur), T.cycles = charges after every PEOE cycle (micro-e, recorded by a     *)
(*   local trace function), T.final = final charges (micro-e), T.scale1000 = 1000 x scale factor, *)
(*   T.radii = radii (1e-4 A), T.tableradii = radii looked up independently in the RADII tables.  *)
(* kind "same": metamorphic pair: charges of a renamed / permuted copy must equal the original's  *)
(*   (as multisets per symmetry class, given as sorted sequences).                                *)
(* kind "complex": end-to-end run of a protein-ligand complex; T.atoms = per HETATM atom the      *)
(*   group kind, how many PQR lines carry it, whether its written parameters equal the ligand's   *)
(*   value for that name (lig) or the value of the run without --ligand (base).                   *)
EXTENDS Naturals, Integers, Sequences, FiniteSets, TLC, Json, IOUtils, SequencesExt
Traces == JsonDeserialize(IOEnv.TRACE_FILE)
VARIABLE tid
T == Traces[tid]
Abs(v) == IF v < 0 THEN -v ELSE v
RECURSIVE SumSeq(_, _)
SumSeq(s, idx) == IF idx = <<>> THEN 0 ELSE s[Head(idx)] + SumSeq(s, Tail(idx))
Tol(c) == 2 * Len(c) + 2
\* 2 x formal sum of a component, in micro-e: formal is stored doubled
FormalMicro(c) == SumSeq(T.formal, c) * 500000
PeoeBad ==
  (IF \A k \in 1..Len(T.comp) : Abs(SumSeq(T.final, T.comp[k]) - FormalMicro(T.comp[k])) <= Tol(T.comp[k])
   THEN {} ELSE {"ConservesFormalCharge"}) \cup
  \* after cycle j of n the component carries j/n of its formal charge (in scaled units)
  (IF \A k \in 1..Len(T.comp) : \A j \in 1..Len(T.cycles) :
        Abs(SumSeq(T.cycles[j], T.comp[k]) * Len(T.cycles) - FormalMicro(T.comp[k]) * j)
           <= Tol(T.comp[k]) * Len(T.cycles)
   THEN {} ELSE {"CycleRedistributesOnly"}) \cup
  (IF \A a \in 1..Len(T.radii) : T.radii[a] > 0 /\ T.radii[a] = T.tableradii[a] THEN {} ELSE {"RadiusFromTables"})
SameBad == IF \A a \in 1..Len(T.q1) : a <= Len(T.q2) /\ Abs(T.q1[a] - T.q2[a]) <= 2 THEN {} ELSE {"IndependentOfNamesAndOrder"}
ComplexBad ==
  (IF \A a \in 1..Len(T.atoms) : T.atoms[a].group = "ligand" => (T.atoms[a].lines = 1 /\ T.atoms[a].lig)
   THEN {} ELSE {"LigandAtomOnce"}) \cup
  (IF \A a \in 1..Len(T.atoms) : T.atoms[a].group # "ligand" => (T.atoms[a].base /\ T.atoms[a].lines = T.atoms[a].baselines)
   THEN {} ELSE {"OnlyLigandGetsLigandParams"})
TInit == tid \in 1..Len(Traces)
TSpec == TInit /\ [][FALSE /\ UNCHANGED tid]_tid
Report == PrintT(<<"T", T.id, IF T.kind = "peoe" THEN PeoeBad ELSE IF T.kind = "same" THEN SameBad ELSE ComplexBad>>)
================================================================================
