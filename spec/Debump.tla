---------------------------------- MODULE Debump ----------------------------------
(***************************************************************************)
(* The search of Debump.debump_residue (not one of the listed properties;  *)
(* it is the algorithm whose torsion changes C04 / C05 / C14 / C15 judge). *)
(* Code anchor: debump.py debump_residue.  One call = up to TestCount      *)
(* rounds; a round picks a dihedral (Residue.pick_dihedral_angle), scores  *)
(* the current angle, scans Steps - 1 further angles in steps of StepSize, *)
(* leaves early when a score of 0 is reached, and finally sets the best    *)
(* angle found (the original one if nothing improved).                     *)
(*                                                                         *)
(* Scores are geometry and enter as nondeterministic input (Scores); the   *)
(* model is the control flow and the choice of the final angle.  Angles    *)
(* are in milli-degrees, scores in integer units (1e-6 in the traces).     *)
(***************************************************************************)
EXTENDS Naturals, Integers, Sequences, FiniteSets, TLC

CONSTANTS Steps,       \* DEBUMP_ANGLE_STEPS
          StepSize,    \* DEBUMP_ANGLE_STEP_SIZE in milli-degrees
          TestCount,   \* DEBUMP_ANGLE_TEST_COUNT
          Scores,      \* the score values explored by the bounded model
          NAngles      \* number of dihedrals of the residue in the bounded model

VARIABLES pc,         \* "pick" | "score0" | "scan" | "final" | "done"
          round,      \* rounds started
          dih,        \* dihedral of this round (-1: none)
          orig,       \* its angle at the start of the round
          i,          \* scan step
          best, bestscore, found,
          score0,     \* score of the original angle in this round
          cur,        \* angle currently set
          ret         \* "none" | "true" | "false"
vars == <<pc, round, dih, orig, i, best, bestscore, found, score0, cur, ret>>

Init == pc = "pick" /\ round = 0 /\ dih = -1 /\ orig = 0 /\ i = 0 /\ best = 0 /\ bestscore = 0 /\ found = FALSE
        /\ score0 = 0 /\ cur = 0 /\ ret = "none"

\* pick_dihedral_angle: some dihedral, or none left (-1)
Pick(n) == /\ pc = "pick" /\ round < TestCount
           /\ round' = round + 1 /\ dih' = n
           /\ IF n = -1 THEN pc' = "done" /\ ret' = "false" /\ UNCHANGED <<orig, i, best, bestscore, found, score0, cur>>
              ELSE pc' = "score0" /\ UNCHANGED <<orig, i, best, bestscore, found, score0, cur, ret>>
GiveUp == pc = "pick" /\ round = TestCount /\ pc' = "done" /\ ret' = "false"
          /\ UNCHANGED <<round, dih, orig, i, best, bestscore, found, score0, cur>>
\* the score of the angle the residue has now (o: that angle)
Score0(o, s) == /\ pc = "score0" /\ orig' = o /\ cur' = o /\ best' = o /\ bestscore' = s /\ score0' = s /\ found' = FALSE /\ i' = 1
                /\ pc' = "scan" /\ UNCHANGED <<round, dih, ret>>
\* one scan step: set orig + i * StepSize, score s, conflicts left in the residue (only asked when s = 0)
Scan(s, conflicts) ==
  /\ pc = "scan" /\ i < Steps
  /\ LET a == orig + i * StepSize IN
     /\ cur' = a
     /\ IF s = 0 /\ ~conflicts THEN pc' = "done" /\ ret' = "true" /\ UNCHANGED <<best, bestscore, found, i>>
        ELSE IF s = 0 THEN best' = a /\ found' = TRUE /\ pc' = "final" /\ UNCHANGED <<bestscore, i, ret>>
        ELSE IF s < bestscore THEN best' = a /\ bestscore' = s /\ found' = TRUE /\ i' = i + 1 /\ UNCHANGED <<pc, ret>>
        ELSE i' = i + 1 /\ UNCHANGED <<best, bestscore, found, pc, ret>>
  /\ UNCHANGED <<round, dih, orig, score0>>
ScanEnd == pc = "scan" /\ i = Steps /\ pc' = "final" /\ UNCHANGED <<round, dih, orig, i, best, bestscore, found, score0, cur, ret>>
\* the best angle is set; the next round starts from the conflicts that remain
Final == pc = "final" /\ cur' = best /\ pc' = "pick" /\ UNCHANGED <<round, dih, orig, i, best, bestscore, found, score0, ret>>

Next == (\E n \in -1..(NAngles - 1) : Pick(n)) \/ GiveUp
        \/ (\E o \in {0, 90000}, s \in Scores : Score0(o, s))
        \/ (\E s \in Scores, c \in BOOLEAN : Scan(s, c)) \/ ScanEnd \/ Final
Spec == Init /\ [][Next]_vars

\* what the search guarantees
NeverWorse == (pc = "pick" /\ round > 0 /\ dih # -1) => bestscore <= score0        \* the angle left set scores no worse than the one found
BestIsSet  == (pc = "pick" /\ round > 0 /\ dih # -1) => cur = best
Untouched  == (pc = "pick" /\ round > 0 /\ dih # -1 /\ ~found) => cur = orig          \* nothing better: the residue is back where it was
Bounded    == round <= TestCount
TrueMeansClean == ret = "true" => pc = "done"
================================================================================
