-------------------------------- MODULE TitrationTrace --------------------------------
(* Trace validation for Titration.  kind "cell": one real pipeline run on a generated        *)
(* tripeptide carrying the group at the position, the pKa source replaced by a harness table; *)
(* T.obs = [patches (sequence applied to the residue by apply_pka_values), nondef, warned     *)
(* (sequences of group names), dropped].  The spec's three decisions are replayed;            *)
(* acc = (same patches in the same order); the C06 clauses are evaluated on T.obs.            *)
(* kind "sweep": total charges (x 10^4) of real PROPKA runs over an increasing pH grid:       *)
(* the sequence must be non-increasing.                                                       *)
EXTENDS Titration, IOUtils, SequencesExt, Integers
VARIABLES tid
Traces == JsonDeserialize(IOEnv.TRACE_FILE)
T == Traces[tid]
TInit == /\ tid \in 1..Len(Traces)
         /\ res = (IF Traces[tid].kind = "cell" THEN Traces[tid].res
                   ELSE [ff |-> "parse", pos |-> "I", group |-> "", sideT |-> "below", sideG |-> "below"])
         /\ patches = <<>> /\ warned = {} /\ pc = "nterm"
TNext == Next /\ UNCHANGED tid
TSpec == TInit /\ [][TNext]_<<vars, tid>>
Obs == [nondef |-> ToSet(T.obs.nondef), warned |-> ToSet(T.obs.warned), dropped |-> T.obs.dropped]
Rising == {k \in 1..(Len(T.charges) - 1) : T.charges[k + 1] > T.charges[k]}
Report == pc = "done" =>
   IF T.kind = "cell" THEN PrintT(<<"T", T.id, patches = T.obs.patches, SetToSeq(Bad(T.res, Obs))>>)
   ELSE PrintT(<<"S", T.id, SetToSeq(Rising)>>)
================================================================================
