---------------------------------- MODULE MC_Psize ----------------------------------
(* Bounded instance of Psize: alphabet of six atom lines (dyadic coordinates so that the real   *)
(* float arithmetic is exact, one non-dyadic atom, a zero radius, HETATM records, an extent of  *)
(* 2000 A that needs the memory-reduction loop) and six header/comment line kinds.              *)
EXTENDS Naturals, Integers, Sequences, TLC, Json
CONSTANTS MaxLen, ParseEveryLine, Emit
VARIABLES file, prm, i, box, gotatom, gothet, err, sz, pc

At(het, x, y, z, r) == [k |-> "atom", het |-> het, c |-> <<x, y, z>>, r |-> r]
No(kind) == [k |-> kind, het |-> FALSE, c |-> <<0, 0, 0>>, r |-> 0]
MCAlphabet == <<
  At(FALSE,        0,      0,      0, 15000),   \* 1
  At(FALSE,    33750, 402500, -75000, 20000),   \* 2
  At(TRUE,  20005000,      0,      0, 11250),   \* 3  far away hetero atom (2000.5 A)
  At(FALSE, -1001250, 402500,      0,     0),   \* 4  zero radius, negative coordinate
  At(TRUE,     33750,      0, -75000, 15000),   \* 5
  At(FALSE,   123450,    -10, 999990, 18240),   \* 6  non-dyadic decimals
  No("ter"), No("end"), No("blank"), No("remark"), No("remarknum"), No("remarktext") >>
MCParams == { [cn |-> 17, cd |-> 10, fadd |-> 200000, space |-> 5000, ceil |-> 2097152],    \* defaults
              [cn |-> 15, cd |-> 10, fadd |-> 100000, space |-> 2500, ceil |-> 524288] }    \* cfac 1.5, fadd 10, space .25, 100 MB
P == INSTANCE Psize WITH Alphabet <- MCAlphabet, Params <- MCParams
Spec == P!Spec
GridUsable == P!GridUsable
EmitInv == P!EmitInv
ASSUME Emit => PrintT("@A" \o ToJson(MCAlphabet))
================================================================================
