---- MODULE MC_Pipeline2 ----
EXTENDS Pipeline2
Compute == [clean : BOOLEAN, assignOnly : BOOLEAN, debump : BOOLEAN, opt : BOOLEAN, pka : BOOLEAN, ligand : BOOLEAN,
            dropWater : BOOLEAN]
Bases == {c @@ [ffout |-> FALSE, pdbOut |-> FALSE, apbsIn |-> FALSE, whitespace |-> FALSE, keepChain |-> FALSE,
                includeHeader |-> FALSE] : c \in Compute}
AllFormatSubsets == SUBSET Formatting
====
