---------------------------------- MODULE PsizeTrace ----------------------------------
(* Trace validation for Psize.  A trace is one abstract file + parameter set with what the real  *)
(* code produced for it: obs (fixed-column layout), obsws (whitespace layout), obsstrip (same    *)
(* file without its header/comment lines), and the fields of the rendered APBS input (inp).      *)
(* The spec's actions are run on the file; acc = (the spec's result equals obs).  The C17        *)
(* clauses are evaluated on the observed results.                                                *)
EXTENDS Naturals, Integers, Sequences, TLC, Json, IOUtils, SequencesExt
CONSTANTS MaxLen, ParseEveryLine, Emit
VARIABLES file, prm, i, box, gotatom, gothet, err, sz, pc, tid
Traces == JsonDeserialize(IOEnv.TRACE_FILE)
TraceAlphabet == JsonDeserialize(IOEnv.ALPHA_FILE)
P == INSTANCE Psize WITH Alphabet <- TraceAlphabet, Params <- {}
T == Traces[tid]
TInit == /\ tid \in 1..Len(Traces)
         /\ file = Traces[tid].file /\ prm = Traces[tid].prm
         /\ i = 0 /\ box = P!NoBox /\ gotatom = 0 /\ gothet = 0 /\ err = "" /\ sz = P!NoSz /\ pc = "parse"
TNext == P!Next /\ UNCHANGED tid
TSpec == TInit /\ [][TNext]_<<file, prm, i, box, gotatom, gothet, err, sz, pc, tid>>

\* rendered input file: dime = ngrid, cglen/fglen = coarse/fine lengths, centred on molecule 1
InputMatches(o, inp) ==
  o.err # "" \/ ( /\ inp.dime = o.sz.ngrid /\ inp.cglen = o.sz.coarse /\ inp.fglen = o.sz.fine
                  /\ inp.cgcent = "mol 1" /\ inp.fgcent = "mol 1" /\ inp.molok )
Extra ==
  (IF P!AtomsOf(T.file) = {} \/ T.obs = T.obsstrip THEN {} ELSE {"HeaderLinesIgnored"}) \cup
  (IF P!AtomsOf(T.file) = {} \/ T.obs = T.obsws THEN {} ELSE {"LayoutIndependent"}) \cup
  (IF P!AtomsOf(T.file) = {} \/ ~T.hasinp \/ InputMatches(T.obs, T.inp) THEN {} ELSE {"InputFileMatches"})
Report == pc = "done" =>
   PrintT(<<"T", T.id, P!Result = T.obs, SetToSeq(P!Bad(T.file, T.prm, T.obs) \cup Extra)>>)
================================================================================
