SPECIFICATION Spec
CONSTANTS
  MaxN = 3
  RowLens = {1, 2, 3}
  MaxAtoms = 2
  Emit = FALSE
INVARIANT GridPreserved
