---------------------------------- MODULE MC_Cells ----------------------------------
(* Bounded instances of Cells: (a) operation histories on three atoms over a lattice of      *)
(* positions straddling cell borders (negative, zero, exact borders); (b) the key arithmetic *)
(* on a one-dimensional grid.  hist entries are emitted for the replay leg (EmitInv).        *)
EXTENDS Cells, Json

CONSTANT Emit
AX == IF Size = 2 THEN {-2000, -1, 0, 1999, 2000} ELSE {-5000, -1, 0, 4999, 5000}
AY == {-1, 0}
MCPositions == {<<x, y, 0>> : x \in AX, y \in AY}

\* (b) one-dimensional grid, step 0.1 A over [-12.0, 12.0] plus points around large offsets
Grid == {100 * i : i \in -120..120} \cup {-1, 1, 999, 1001, -999, -1001, 99999999, -99999999, 99998001, -99998001}
GridPositions == {<<x, 0, 0>> : x \in Grid}

EmitInv == (Emit /\ Len(hist) = MaxOps) => PrintT("@" \o ToJson([pos0 |-> pos0, hist |-> hist]))
================================================================================
