-------------------------------- MODULE SSBridgeTrace --------------------------------
(* Trace validation for SSBridge: T.close is the within-limit relation recomputed from the     *)
(* coordinates written to the input file (file order), T.obs the state of every CYS residue on  *)
(* the biomolecule the real pipeline returned: partner index (0 = not bonded), cyx (force-field *)
(* name is CYX), hg (thiol hydrogen present), cym (given as thiolate).  The spec's scan is run on T.close; acc = (its    *)
(* bonded function equals the observed partners); the C13 clauses are evaluated on T.obs.       *)
EXTENDS Naturals, Sequences, FiniteSets, TLC, Json, IOUtils, SequencesExt
CONSTANT N
VARIABLES close, i, partners, bonded, pc, tid
Traces == JsonDeserialize(IOEnv.TRACE_FILE)
S == INSTANCE SSBridge WITH Emit <- FALSE
T == Traces[tid]
TInit == /\ tid \in {t \in 1..Len(Traces) : Traces[t].n = N}
         /\ close = {<<Traces[tid].close[k][1], Traces[tid].close[k][2]>> : k \in 1..Len(Traces[tid].close)}
         /\ i = 1 /\ partners = [c \in 1..N |-> <<>>] /\ bonded = [c \in 1..N |-> 0] /\ pc = "scan"
TNext == S!Next /\ UNCHANGED tid
TSpec == TInit /\ [][TNext]_<<close, i, partners, bonded, pc, tid>>
ObsPartner == [c \in 1..N |-> T.obs[c].partner]
Consistent(c) ==  \* the three observables of one residue agree with each other
  \* (a cysteine given as the thiolate CYM has no HG; bridged, it is CYX like any other)
  /\ (T.obs[c].partner # 0) = T.obs[c].cyx
  /\ (T.obs[c].cyx => ~T.obs[c].hg)
  /\ (~T.obs[c].cyx => (T.obs[c].hg \/ T.obs[c].cym))
Report == pc = "done" =>
  PrintT(<<"T", T.id, bonded = ObsPartner, SetToSeq(S!Bad(close, ObsPartner)),
           SetToSeq({c \in 1..N : ~Consistent(c)})>>)
================================================================================
