------------------------------- MODULE PdbReader -------------------------------
(***************************************************************************)
(* Ingestion of a PDB file by pdb2pqr (property C07).                      *)
(*                                                                         *)
(* Code anchors:  pdb.read_pdb (line loop), main.drop_water,               *)
(* Biomolecule.__init__ (record loop: chain/residue grouping, END / MODEL  *)
(* / TER bookkeeping, blank-chain renaming), the residue constructors'     *)
(* first-occurrence-wins rule for duplicate atom names.                    *)
(*                                                                         *)
(* A file is a sequence of abstract lines (indices into Alphabet).  The    *)
(* state machine grows the file line by line exactly as read_pdb consumes  *)
(* it (action ReadLine), then runs the grouping loop (action Group), which *)
(* is a left fold whose step operator mirrors the body of the record loop. *)
(* Deviations of the code from the ideal reader are named constants so     *)
(* that TLC can show both "the ideal satisfies C07" and "the code as       *)
(* written does / does not":                                               *)
(*    BlankStops     - a blank line ends reading (readline().strip()=="")  *)
(*    EndEmptyRaises - END with an empty residue buffer raises             *)
(*    GluedKeepsWater- drop_water keys on the first whitespace token, so   *)
(*                     "HETATM10001" (5-digit serial) is not recognised    *)
(*    EmptyModelContinues - the second MODEL record ends reading only if   *)
(*                     the residue buffer is not empty: after an empty     *)
(*                     first model the second one is read (minus its last  *)
(*                     residue)                                            *)
(***************************************************************************)
EXTENDS Naturals, Integers, Sequences, FiniteSets, TLC, Json, SequencesExt

CONSTANTS MaxLen,          \* longest file explored
          BlankStops,      \* TRUE: code as written before the fix
          EndEmptyRaises,  \* TRUE: code as written before the fix
          GluedKeepsWater, \* TRUE: drop_water misses HETATM records whose serial is glued to the record name
          EmptyModelContinues, \* TRUE: code before the fix - a MODEL record met with an empty residue buffer never ends reading
          DropWaterChoices,\* subset of BOOLEAN: values of --drop-water explored
          Alphabet,        \* the abstract lines files are made of
          Emit             \* TRUE: print every finished file with the model's result (replay leg)

(***************************************************************************)
(* Alphabet: sequence of abstract lines [k, het, ch, rs, ic, nm, alt, rn,  *)
(* fmt]; k in {"atom","ter","end","model","endmdl","blank","unknown",      *)
(* "remark"}.  MC_PdbReader supplies the bounded alphabet for model        *)
(* checking; trace validation reads the alphabet of the recorded runs.     *)
(***************************************************************************)
NSym == Len(Alphabet)
Sym  == 1..NSym
L(s) == Alphabet[s]
IsAtom(s)  == L(s).k = "atom"
IsWater(s) == IsAtom(s) /\ L(s).rn \in {"HOH", "WAT"}

VARIABLES dw,       \* option --drop-water of this run
          file,     \* sequence of symbols: the lines of the input, in order
          errs,     \* read_pdb's errlist is non-empty (an unparsable record type was seen)
          pdblist,  \* what read_pdb returned: sequence of [s |-> symbol, i |-> line index]
          stopped,  \* read_pdb has left its loop
          pc,       \* "read" | "done"
          res       \* result of Biomolecule.__init__ : [err, chains]
vars == <<dw, file, errs, pdblist, stopped, pc, res>>

NoRes == [err |-> "", chains |-> <<>>]

(***************************************************************************)
(* read_pdb: one iteration of the line loop.                               *)
(***************************************************************************)
Parsed(s) == L(s).k \notin {"blank", "unknown"}   \* unknown record: KeyError -> errlist, not kept

ReadLine(s) ==
  /\ pc = "read" /\ Len(file) < MaxLen
  /\ file' = Append(file, s)
  /\ IF stopped THEN UNCHANGED <<pdblist, stopped, errs>>
     ELSE IF L(s).k = "blank" /\ BlankStops THEN stopped' = TRUE /\ UNCHANGED <<pdblist, errs>>
     ELSE /\ pdblist' = IF Parsed(s) THEN Append(pdblist, [s |-> s, i |-> Len(file) + 1]) ELSE pdblist
          /\ errs' = (errs \/ L(s).k = "unknown")
          /\ UNCHANGED stopped
  /\ UNCHANGED <<dw, pc, res>>

(***************************************************************************)
(* main.drop_water on the record list.                                     *)
(***************************************************************************)
Dropped(pl, d) ==
  IF d THEN SelectSeq(pl, LAMBDA r : ~(IsWater(r.s) /\ ~(GluedKeepsWater /\ L(r.s).het /\ L(r.s).fmt = "wide")))
  ELSE pl

(***************************************************************************)
(* Biomolecule.__init__ : the record loop as a fold.                       *)
(*   g.cd    chain_dict: chain id -> sequence of residues                  *)
(*   g.cur   `residue`: the buffer of records of the residue being read    *)
(*   g.prev  previous_atom (0 = None) as [s, i, ch] with the assigned chain*)
(*   g.nm    num_models, g.cnt `count` (TER seen), g.brk loop left by break*)
(***************************************************************************)
Letters == <<"A","B","C","D","E","F","G","H">>
NumChains(pl) == 1 + Cardinality({j \in 1..Len(pl) : L(pl[j].s).k = "ter"})

\* the residue constructors: first occurrence of an atom name wins
Dedup(recs) ==
  FoldLeft(LAMBDA acc, r : IF \E q \in 1..Len(acc) : acc[q].nm = L(r.s).nm THEN acc
                           ELSE Append(acc, [nm |-> L(r.s).nm, i |-> r.i]), <<>>, recs)
MkRes(recs) ==
  LET last == recs[Len(recs)] IN
  [ch |-> last.ch, rs |-> L(last.s).rs, ic |-> L(last.s).ic,
   rn |-> L(last.s).rn, atoms |-> Dedup(recs)]
AddRes(cd, ch, recs) == [cd EXCEPT ![ch] = Append(@, MkRes(recs))]
Flush(g) == [g EXCEPT !.cd = AddRes(g.cd, g.prev.ch, g.cur), !.cur = <<>>]

Step(g, rec, nch) ==
  LET ln == L(rec.s) IN
  IF g.brk \/ g.err # "" THEN g
  ELSE IF ln.k = "atom" THEN
     LET ch == IF ln.ch = "" /\ nch > 1 /\ ln.rn \notin {"WAT", "HOH"} THEN Letters[g.cnt + 1] ELSE ln.ch
         me == [s |-> rec.s, i |-> rec.i, ch |-> ch]
         p  == IF g.prev.s = 0 THEN me ELSE g.prev
         g1 == IF ch \in DOMAIN g.cd THEN g ELSE [g EXCEPT !.cd = (ch :> <<>>) @@ g.cd]
         g2 == IF ln.rs # L(p.s).rs \/ ln.ic # L(p.s).ic \/ ch # p.ch
               THEN (IF g1.cur = <<>> THEN [g1 EXCEPT !.err = "IndexError"]   \* create_residue([])
                     ELSE [g1 EXCEPT !.cd = AddRes(g1.cd, p.ch, g1.cur), !.cur = <<>>])
               ELSE g1
     IN IF g2.err # "" THEN g2 ELSE [g2 EXCEPT !.cur = Append(g2.cur, me), !.prev = me]
  ELSE IF ln.k = "end" THEN
     IF g.prev.s = 0 THEN (IF EndEmptyRaises THEN [g EXCEPT !.err = "AttributeError"] ELSE g)
     ELSE IF g.cur = <<>> THEN (IF EndEmptyRaises THEN [g EXCEPT !.err = "IndexError"] ELSE g)
     ELSE Flush(g)
  ELSE IF ln.k = "model" THEN
     LET g1 == [g EXCEPT !.nm = g.nm + 1] IN
     IF EmptyModelContinues /\ g1.cur = <<>> THEN g1
     ELSE IF g1.nm > 1 THEN [(IF g1.cur = <<>> THEN g1 ELSE Flush(g1)) EXCEPT !.brk = TRUE]
     ELSE g1
  ELSE IF ln.k = "ter" THEN [g EXCEPT !.cnt = g.cnt + 1]
  ELSE g

G0 == [cd |-> <<>>, cur |-> <<>>, prev |-> [s |-> 0, i |-> 0, ch |-> ""], nm |-> 0, cnt |-> 0,
       brk |-> FALSE, err |-> ""]

\* chains in the order of Biomolecule.chains: sorted by id, the blank id sorts as "ZZ" (last)
ChainOrder(ids) ==
  LET named == {c \in ids : c # ""} IN
  SelectSeq(<<"A","B","C","D","E","F","G","H","">>, LAMBDA c : c \in ids)

Grouping(pl0, d) ==
  LET pl  == Dropped(pl0, d)
      nch == NumChains(pl)
      g   == FoldLeft(LAMBDA acc, r : Step(acc, r, nch), G0, pl)
      \* after the loop: flush the last buffer unless a later model was seen
      gf  == IF g.err = "" /\ g.cur # <<>> /\ g.nm <= 1 /\ ~g.brk THEN Flush(g) ELSE g
  IN IF gf.err # "" THEN [err |-> gf.err, chains |-> <<>>]
     ELSE [err |-> "",
           chains |-> LET ord == ChainOrder(DOMAIN gf.cd)
                      IN [n \in 1..Len(ord) |-> [id |-> ord[n], residues |-> gf.cd[ord[n]]]]]

Group ==
  /\ pc = "read"
  /\ pc' = "done"
  /\ res' = IF pdblist = <<>> /\ ~errs
             THEN [err |-> "RuntimeError", chains |-> <<>>]   \* io.get_molecule: nothing parsed
             ELSE Grouping(pdblist, dw)
  /\ UNCHANGED <<dw, file, errs, pdblist, stopped>>

Init == dw \in DropWaterChoices /\ errs = FALSE /\ file = <<>> /\ pdblist = <<>> /\ stopped = FALSE /\ pc = "read" /\ res = NoRes
Next == (\E s \in Sym : ReadLine(s)) \/ Group
Spec == Init /\ [][Next]_vars

(***************************************************************************)
(* The property, stated on the file (declaratively), for any result r     *)
(* (the model's own res, or a result observed from the real code).        *)
(***************************************************************************)
Kinds(f)  == [j \in 1..Len(f) |-> L(f[j]).k]
ModelsBefore(f, i) == Cardinality({j \in 1..(i-1) : L(f[j]).k = "model"})
EndmdlBefore(f, i) == Cardinality({j \in 1..(i-1) : L(f[j]).k = "endmdl"})
InFirstModel(f, i) == ModelsBefore(f, i) <= 1 /\ EndmdlBefore(f, i) = 0
AtomIdx(f) == {i \in 1..Len(f) : IsAtom(f[i])}
TersBefore(f, i) == Cardinality({j \in 1..(i-1) : L(f[j]).k = "ter"})
\* chain identity of line i: its chain id; records without a chain id are separated by TER
EffChain(f, i) == IF L(f[i]).ch = "" /\ ~IsWater(f[i]) THEN <<"", TersBefore(f, i)>> ELSE <<L(f[i]).ch, 0>>
ResKey(f, i)  == <<EffChain(f, i), L(f[i]).rs, L(f[i]).ic>>
AtomKey(f, i) == <<EffChain(f, i), L(f[i]).rs, L(f[i]).ic, L(f[i]).nm>>

\* Well-formedness assumed by the property (recorded as an assumption in the evidence):
\*  MODEL/ENDMDL alternate starting with MODEL, no coordinate line outside a model if there is
\*  one, END only after the last coordinate line, coordinate lines of one residue contiguous.
WellFormed(f) ==
  LET mm == SelectSeq(Kinds(f), LAMBDA k : k \in {"model", "endmdl"}) IN
  /\ \A j \in 1..Len(mm) : mm[j] = IF j % 2 = 1 THEN "model" ELSE "endmdl"
  /\ (Len(mm) > 0 => \A i \in AtomIdx(f) : ModelsBefore(f, i) > EndmdlBefore(f, i))
  /\ \A i \in AtomIdx(f) : ~\E j \in 1..(i-1) : L(f[j]).k = "end"
  /\ \A i, j \in AtomIdx(f) :
        (i < j /\ ResKey(f, i) = ResKey(f, j) /\ InFirstModel(f, i) /\ InFirstModel(f, j))
           => \A m \in (i+1)..(j-1) : IsAtom(f[m]) => ResKey(f, m) = ResKey(f, i)

Expected(f, d) ==
  {i \in AtomIdx(f) :
      /\ InFirstModel(f, i)
      /\ ~(d /\ IsWater(f[i]))
      /\ ~\E j \in AtomIdx(f) : j < i /\ InFirstModel(f, j) /\ AtomKey(f, j) = AtomKey(f, i)}

ResList(r) == FoldLeft(LAMBDA acc, c : acc \o c.residues, <<>>, r.chains)
Ingested(r) == UNION {{a.i : a \in ToSet(x.atoms)} : x \in ToSet(ResList(r))}
NAtoms(r) == FoldLeft(LAMBDA n, x : n + Len(x.atoms), 0, ResList(r))

NoError(f, r, d)      == Expected(f, d) # {} => r.err = ""
IngestedExactly(f, r, d) == r.err = "" => Ingested(r) = Expected(f, d)
NoDuplicate(f, r)     == r.err = "" => NAtoms(r) = Cardinality(Ingested(r))
GroupedByKey(f, r)    == r.err = "" =>
   \A x \in ToSet(ResList(r)) : \A a, b \in ToSet(x.atoms) :
       (a.i \in 1..Len(f) /\ b.i \in 1..Len(f)) => ResKey(f, a.i) = ResKey(f, b.i)
OneResiduePerKey(f, r) == r.err = "" =>
   \A p, q \in 1..Len(ResList(r)) :
      LET x == ResList(r)[p]  y == ResList(r)[q] IN
      (p # q /\ x.atoms # <<>> /\ y.atoms # <<>>
         /\ x.atoms[1].i \in 1..Len(f) /\ y.atoms[1].i \in 1..Len(f))
        => ResKey(f, x.atoms[1].i) # ResKey(f, y.atoms[1].i)

Clauses(f, r, d) ==
  (IF NoError(f, r, d) THEN {} ELSE {"NoError"}) \cup
  (IF IngestedExactly(f, r, d) THEN {} ELSE {"IngestedExactly"}) \cup
  (IF NoDuplicate(f, r) THEN {} ELSE {"NoDuplicate"}) \cup
  (IF GroupedByKey(f, r) THEN {} ELSE {"GroupedByKey"}) \cup
  (IF OneResiduePerKey(f, r) THEN {} ELSE {"OneResiduePerKey"})

AllIngested == (pc = "done" /\ WellFormed(file)) => Clauses(file, res, dw) = {}

\* Replay leg: every finished file with what the model says the code does and the verdict.
EmitInv == (Emit /\ pc = "done") =>
   PrintT("@" \o ToJson([dw |-> dw, file |-> file, wf |-> WellFormed(file), res |-> res,
                          bad |-> IF WellFormed(file) THEN SetToSeq(Clauses(file, res, dw)) ELSE <<>>]))

================================================================================
