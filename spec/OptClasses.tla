---------------------------------- MODULE OptClasses ----------------------------------
(***************************************************************************)
(* Name-set effect of the hydrogen-optimisation classes (property C03,     *)
(* model level).  Code anchors: hydrogens/structures.py Flip (HIS, ASN,    *)
(* GLN), Alcoholic (SER, THR, TYR, CYS), Water, Carboxylic (ASH, GLH):     *)
(* __init__, try_donor / try_acceptor / try_both with their undo paths,    *)
(* fix_flip / finalize / complete.  Geometric outcomes (is there a         *)
(* hydrogen bond, which candidate is better) are nondeterministic.         *)
(* One object of each class lives in the state; each may receive up to     *)
(* MaxTries try_* calls before complete() is called on it.                 *)
(***************************************************************************)
EXTENDS Naturals, Sequences, FiniteSets, TLC

CONSTANTS MaxTries,
          LeakLP     \* deviation for the self-test: complete() forgets the second lone pair

VARIABLES wat, alc, flp, car,   \* name sets of the four residues
          fixed,                \* class -> BOOLEAN
          tries,                \* class -> number of try_* calls so far
          done                  \* class -> complete() has been called
vars == <<wat, alc, flp, car, fixed, tries, done>>
Classes == {"wat", "alc", "flp", "car"}

FlipMove == {"ND2", "OD1"}                         \* the atoms an ASN flip rotates
FlipBase == {"CB", "CG", "ND2", "OD1"}
FlipCopy(n) == n \o "FLIP"

Init == /\ wat = {"O"}                              \* a water oxygen without hydrogens
        /\ alc = {"CB", "OG"}                       \* Alcoholic.__init__ has removed HG
        /\ flp = FlipBase \cup {FlipCopy(n) : n \in FlipMove}          \* Flip.__init__ created the copies
        /\ car = {"CG", "OD1", "OD2", "HD11", "HD12", "HD21", "HD22"}  \* Carboxylic.__init__ doubled both hydrogens
        /\ fixed = [c \in Classes |-> FALSE] /\ tries = [c \in Classes |-> 0] /\ done = [c \in Classes |-> FALSE]

Try(c) == ~done[c] /\ ~fixed[c] /\ tries[c] < MaxTries /\ tries' = [tries EXCEPT ![c] = @ + 1]

(* ---- Water ---- *)
NextH(w) == IF "H1" \notin w THEN "H1" ELSE IF "H2" \notin w THEN "H2" ELSE ""
NextLP(w) == IF "LP1" \notin w THEN "LP1" ELSE IF "LP2" \notin w THEN "LP2" ELSE ""
WatDonor == /\ Try("wat") /\ NextH(wat) # ""
            /\ \E ok \in BOOLEAN : wat' = IF ok THEN wat \cup {NextH(wat)} ELSE wat
            /\ UNCHANGED <<alc, flp, car, fixed, done>>
WatAcceptor == /\ Try("wat") /\ NextLP(wat) # ""
               /\ \E ok \in BOOLEAN : wat' = IF ok THEN wat \cup {NextLP(wat)} ELSE wat
               /\ UNCHANGED <<alc, flp, car, fixed, done>>
\* try_both: donor succeeded, acceptor failed -> undo removes H2 if present else H1
WatBothUndo == /\ Try("wat") /\ NextH(wat) # ""
               /\ LET w1 == wat \cup {NextH(wat)} IN wat' = IF "H2" \in w1 THEN w1 \ {"H2"} ELSE w1 \ {"H1"}
               /\ UNCHANGED <<alc, flp, car, fixed, done>>
WatComplete == /\ ~done["wat"] /\ wat' = (wat \cup {"H1", "H2"}) \ (IF LeakLP THEN {"LP1"} ELSE {"LP1", "LP2"})      \* finalize adds, complete removes LP*
               /\ done' = [done EXCEPT !["wat"] = TRUE] /\ UNCHANGED <<alc, flp, car, fixed, tries>>

(* ---- Alcoholic ---- *)
AlcDonor == /\ Try("alc") /\ "HG" \notin alc
            /\ \E ok \in BOOLEAN : alc' = IF ok THEN alc \cup {"HG"} ELSE alc
            /\ UNCHANGED <<wat, flp, car, fixed, done>>
AlcAcceptor == /\ Try("alc") /\ NextLP(alc) # ""
               /\ \E ok \in BOOLEAN : alc' = IF ok THEN alc \cup {NextLP(alc)} ELSE alc
               /\ UNCHANGED <<wat, flp, car, fixed, done>>
AlcBothUndo == /\ Try("alc") /\ "HG" \notin alc /\ alc' = alc           \* H created, acceptor side failed, H removed again
               /\ UNCHANGED <<wat, flp, car, fixed, done>>
AlcComplete == /\ ~done["alc"] /\ alc' = (alc \cup {"HG"}) \ {"LP1", "LP2"}
               /\ done' = [done EXCEPT !["alc"] = TRUE] /\ fixed' = [fixed EXCEPT !["alc"] = TRUE]
               /\ UNCHANGED <<wat, flp, car, tries>>

(* ---- Flip ---- *)
\* fix_flip: keep the original position (delete all copies) or the flipped one (delete the originals that have a copy)
FlpFix == /\ Try("flp") /\ \E c \in flp : \E n \in FlipMove : c = FlipCopy(n)
          /\ \E keepOriginal \in BOOLEAN :
               flp' = IF keepOriginal THEN flp \ {FlipCopy(n) : n \in FlipMove}
                      ELSE flp \ {n \in FlipMove : FlipCopy(n) \in flp}
          /\ fixed' = [fixed EXCEPT !["flp"] = TRUE] /\ UNCHANGED <<wat, alc, car, done>>
\* finalize (not fixed: the original is deleted, the copy renamed) then complete renames any remaining copy
Unflip(s) == (s \ {FlipCopy(n) : n \in FlipMove}) \cup {n \in FlipMove : FlipCopy(n) \in s}
FlpComplete == /\ ~done["flp"] /\ flp' = Unflip(flp)
               /\ done' = [done EXCEPT !["flp"] = TRUE] /\ UNCHANGED <<wat, alc, car, fixed, tries>>

(* ---- Carboxylic ---- *)
Doubles == {"HD11", "HD12", "HD21", "HD22"}
\* fix / finalize: one double survives and is renamed back to HD1 or HD2
CarFix == /\ Try("car") /\ car \cap Doubles # {}
          /\ \E keep \in car \cap Doubles :
               car' = (car \ Doubles) \cup {IF keep \in {"HD11", "HD12"} THEN "HD1" ELSE "HD2"}
          /\ fixed' = [fixed EXCEPT !["car"] = TRUE] /\ UNCHANGED <<wat, alc, flp, done>>
CarComplete == /\ ~done["car"]
               /\ IF car \cap Doubles = {} THEN car' = car
                  ELSE \E keep \in car \cap Doubles : car' = (car \ Doubles) \cup {IF keep \in {"HD11", "HD12"} THEN "HD1" ELSE "HD2"}
               /\ done' = [done EXCEPT !["car"] = TRUE] /\ UNCHANGED <<wat, alc, flp, fixed, tries>>

Next == WatDonor \/ WatAcceptor \/ WatBothUndo \/ WatComplete \/ AlcDonor \/ AlcAcceptor \/ AlcBothUndo \/ AlcComplete
        \/ FlpFix \/ FlpComplete \/ CarFix \/ CarComplete
Spec == Init /\ [][Next]_vars

Temp == {"LP1", "LP2"} \cup {FlipCopy(n) : n \in FlipMove} \cup Doubles
NoTempAfterComplete == /\ (done["wat"] => wat \cap Temp = {}) /\ (done["alc"] => alc \cap Temp = {})
                       /\ (done["flp"] => flp \cap Temp = {}) /\ (done["car"] => car \cap Temp = {})
FinalSetIsTopology == /\ (done["wat"] => wat = {"O", "H1", "H2"})
                      /\ (done["alc"] => alc = {"CB", "OG", "HG"})
                      /\ (done["flp"] => flp = FlipBase)
                      /\ done["car"] => (car \ {"HD1", "HD2"} = {"CG", "OD1", "OD2"} /\ Cardinality(car \cap {"HD1", "HD2"}) = 1)
InputHeavyConserved == {"O"} \subseteq wat /\ {"CB", "OG"} \subseteq alc /\ {"CB", "CG"} \subseteq flp /\ {"CG", "OD1", "OD2"} \subseteq car
                       /\ (done["flp"] => FlipMove \subseteq flp)
================================================================================
