----------------------------------- MODULE History -----------------------------------
(***************************************************************************)
(* Process histories (property C11): a process issues a sequence of runs   *)
(* through the programmatic entry point; each run has a configuration      *)
(* (input + options) and produces an outcome (digest of the PQR bytes, or  *)
(* the exception class).  proc is the process-lifetime state that outlives *)
(* a run (module registries, caches, mutable defaults): the design claim   *)
(* is that no run reads anything a previous run left there, so the outcome *)
(* is a function of the configuration alone - across positions in a        *)
(* history, across histories, and across processes (hash seeds).           *)
(* Leak names a deviation: runs with configuration LeakFrom leave a fact   *)
(* in proc that runs with configuration LeakTo read.                       *)
(***************************************************************************)
EXTENDS Naturals, Sequences, FiniteSets, TLC, Json

CONSTANTS Configs,    \* configuration names
          MaxRuns,    \* longest history
          Leak,       \* TRUE: the deviation is switched on
          LeakFrom, LeakTo,
          Emit

VARIABLES hist,   \* configurations run so far in this process
          proc,   \* facts left behind by earlier runs
          outs    \* outcomes observed so far: sequence of <<cfg, outcome>>
vars == <<hist, proc, outs>>

\* the outcome of running cfg in a process whose lifetime state is p
Outcome(cfg, p) == IF Leak /\ cfg = LeakTo /\ LeakFrom \in p THEN <<cfg, "tainted">> ELSE <<cfg, "clean">>

Init == hist = <<>> /\ proc = {} /\ outs = <<>>
Run(cfg) == /\ Len(hist) < MaxRuns
            /\ outs' = Append(outs, <<cfg, Outcome(cfg, proc)>>)
            /\ proc' = IF Leak THEN proc \cup {cfg} ELSE proc
            /\ hist' = Append(hist, cfg)
Next == \E cfg \in Configs : Run(cfg)
Spec == Init /\ [][Next]_vars

\* C11: within a history the outcome of a configuration never depends on what ran before
OutputFunctionOfConfig == \A i, j \in 1..Len(outs) : outs[i][1] = outs[j][1] => outs[i][2] = outs[j][2]
\* ... and equals the outcome in a fresh process
SameAsFresh == \A i \in 1..Len(outs) : outs[i][2] = Outcome(outs[i][1], {})

EmitInv == (Emit /\ Len(hist) >= 1) => PrintT("@" \o ToJson(hist))
================================================================================
