---------------------------------- MODULE Cells ----------------------------------
(***************************************************************************)
(* The cell list used for neighbour search (property C14).                 *)
(*                                                                         *)
(* Code anchors: cells.Cells.add_cell / remove_cell / get_near_cells, and  *)
(* the call-site discipline "remove_cell; change coordinates; add_cell"    *)
(* (debump.set_dihedral_angle, hydrogens/structures.py).                   *)
(*                                                                         *)
(* Coordinates are integers in milli-Angstrom.  Key1 is add_cell's         *)
(* arithmetic: int() truncates toward zero, negative values take the       *)
(* separate branch ((int(x) - 1) // size * size), // is floor division.    *)
(* Each primitive of the class is one action; a coordinate change that is  *)
(* not bracketed by remove/add is the *named* action RawMove so that the   *)
(* call-site discipline is part of the model.                              *)
(***************************************************************************)
EXTENDS Integers, Sequences, FiniteSets, TLC

CONSTANTS Atoms,        \* atom identities
          Size,         \* cell size in Angstrom (2 for debumping, 5 for hydrogen optimisation)
          Positions,    \* set of <<x, y, z>> (milli-Angstrom) atoms may take
          AllowRawMove, \* TRUE: coordinates may change without re-binning (discipline broken)
          MaxOps        \* bound on the length of operation histories

VARIABLES pos,      \* atom -> <<x,y,z>>
          cellmap,  \* cell key -> sequence of atoms (Cells.cellmap)
          cellOf,   \* atom -> cell key or None (Atom.cell)
          hist,     \* operations performed so far (history variable, hidden by the VIEW)
          pos0      \* initial positions (history variable)
vars == <<pos, cellmap, cellOf, hist, pos0>>
view == <<pos, cellmap, cellOf, Len(hist)>>

None == <<>>

Trunc(m)  == IF m >= 0 THEN m \div 1000 ELSE -((-m) \div 1000)          \* int(x)
Key1(m)   == IF m < 0 THEN ((Trunc(m) - 1) \div Size) * Size ELSE (Trunc(m) \div Size) * Size
Key(p)    == <<Key1(p[1]), Key1(p[2]), Key1(p[3])>>

Abs(v) == IF v < 0 THEN -v ELSE v
\* strictly closer than the cell size (per-axis test first keeps the squares inside 32 bits)
Near(p, q) ==
  /\ Abs(p[1] - q[1]) < Size * 1000 /\ Abs(p[2] - q[2]) < Size * 1000 /\ Abs(p[3] - q[3]) < Size * 1000
  /\ (p[1]-q[1])*(p[1]-q[1]) + (p[2]-q[2])*(p[2]-q[2]) + (p[3]-q[3])*(p[3]-q[3]) < Size*1000*Size*1000

Bucket(k) == IF k \in DOMAIN cellmap THEN cellmap[k] ELSE <<>>
RemoveFirst(s, a) ==
  LET i == CHOOSE j \in 1..Len(s) : s[j] = a /\ \A m \in 1..(j-1) : s[m] # a
  IN SubSeq(s, 1, i - 1) \o SubSeq(s, i + 1, Len(s))

(***************************************************************************)
(* add_cell(atom): append to the bucket of the key of the current          *)
(* coordinates, record the key on the atom.  (No check that the atom is    *)
(* unbinned: the call sites are responsible.)                              *)
(***************************************************************************)
AddCell(a) ==
  LET k == Key(pos[a]) IN
  /\ cellmap' = IF k \in DOMAIN cellmap THEN [cellmap EXCEPT ![k] = Append(@, a)]
                ELSE (k :> <<a>>) @@ cellmap
  /\ cellOf' = [cellOf EXCEPT ![a] = k]

RemoveCell(a) ==
  IF cellOf[a] = None THEN UNCHANGED <<cellmap, cellOf>>
  ELSE /\ cellmap' = [cellmap EXCEPT ![cellOf[a]] = RemoveFirst(@, a)]
       /\ cellOf' = [cellOf EXCEPT ![a] = None]

\* get_near_cells(a): the 27 buckets around a's recorded cell, in loop order, a itself skipped
Offsets == <<-Size, 0, Size>>
NearKeys(k) == [n \in 1..27 |-> <<k[1] + Offsets[((n-1) \div 9) + 1],
                                  k[2] + Offsets[(((n-1) \div 3) % 3) + 1],
                                  k[3] + Offsets[((n-1) % 3) + 1]>>]
RECURSIVE Concat(_, _)
Concat(ss, n) == IF n = 0 THEN <<>> ELSE Concat(ss, n - 1) \o ss[n]
Query(a) ==
  IF cellOf[a] = None THEN <<>>
  ELSE LET ks == NearKeys(cellOf[a])
           bs == [n \in 1..27 |-> SelectSeq(Bucket(ks[n]), LAMBDA b : b # a)]
       IN Concat(bs, 27)

(***************************************************************************)
(* Actions                                                                 *)
(***************************************************************************)
Log(op, a, p) == hist' = Append(hist, [op |-> op, a |-> a, p |-> p]) /\ UNCHANGED pos0

Add(a)    == cellOf[a] = None /\ AddCell(a) /\ UNCHANGED pos /\ Log("add", a, pos[a])
Remove(a) == cellOf[a] # None /\ RemoveCell(a) /\ UNCHANGED pos /\ Log("remove", a, pos[a])
\* the discipline: remove_cell; assign coordinates; add_cell  (one critical section of the code)
Move(a, p) ==
  /\ cellOf[a] # None /\ p # pos[a]
  /\ pos' = [pos EXCEPT ![a] = p]
  /\ LET m1 == IF cellOf[a] = None THEN cellmap ELSE [cellmap EXCEPT ![cellOf[a]] = RemoveFirst(@, a)]
         k  == Key(p)
     IN /\ cellmap' = IF k \in DOMAIN m1 THEN [m1 EXCEPT ![k] = Append(@, a)] ELSE (k :> <<a>>) @@ m1
        /\ cellOf' = [cellOf EXCEPT ![a] = k]
  /\ Log("move", a, p)
\* coordinates assigned without re-binning
RawMove(a, p) ==
  /\ AllowRawMove /\ p # pos[a]
  /\ pos' = [pos EXCEPT ![a] = p]
  /\ UNCHANGED <<cellmap, cellOf>>
  /\ Log("rawmove", a, p)
\* an unbinned atom may be placed anywhere (atom created but not yet added to the cells)
Place(a, p) ==
  /\ cellOf[a] = None /\ p # pos[a]
  /\ pos' = [pos EXCEPT ![a] = p]
  /\ UNCHANGED <<cellmap, cellOf>>
  /\ Log("place", a, p)

Init == /\ pos \in [Atoms -> Positions]
        /\ cellmap = <<>> /\ cellOf = [a \in Atoms |-> None] /\ hist = <<>> /\ pos0 = pos
Next == /\ Len(hist) < MaxOps
        /\ \E a \in Atoms : \/ Add(a) \/ Remove(a)
                            \/ \E p \in Positions : Move(a, p) \/ RawMove(a, p) \/ Place(a, p)
Spec == Init /\ [][Next]_vars

(***************************************************************************)
(* Properties                                                              *)
(***************************************************************************)
Occurrences(a) == {<<k, i>> \in UNION {{<<k2, j>> : j \in 1..Len(cellmap[k2])} : k2 \in DOMAIN cellmap} :
                       cellmap[k][i] = a}
\* every binned atom sits once, in the bucket of its current position; unbinned atoms nowhere
Consistent ==
  \A a \in Atoms :
     IF cellOf[a] = None THEN Occurrences(a) = {}
     ELSE /\ cellOf[a] = Key(pos[a])
          /\ Cardinality(Occurrences(a)) = 1
          /\ \E i \in 1..Len(Bucket(cellOf[a])) : cellmap[cellOf[a]][i] = a
InQuery(a, b) == \E i \in 1..Len(Query(a)) : Query(a)[i] = b
\* a query returns every binned atom closer than the cell size ...
QueryComplete ==
  \A a, b \in Atoms :
     (a # b /\ cellOf[a] # None /\ cellOf[b] # None /\ Near(pos[a], pos[b])) => InQuery(a, b)
\* ... and nothing that is not binned (no ghosts)
QuerySound == \A a, b \in Atoms : InQuery(a, b) => (b # a /\ cellOf[b] # None)

\* the key arithmetic alone: cells tile the axis in intervals of width Size
Covering == \A p, q \in Positions : \A ax \in 1..3 :
               Abs(p[ax] - q[ax]) < Size * 1000 => Abs(Key1(p[ax]) - Key1(q[ax])) <= Size
================================================================================
