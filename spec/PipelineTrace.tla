--------------------------------- MODULE PipelineTrace ---------------------------------
(***************************************************************************)
(* Trace validation for Pipeline (code -> spec).  A trace is one real run  *)
(* of pdb2pqr.main.run_pdb2pqr recorded by the stage wrappers: one event   *)
(* per stage that returned (kind "exit") or raised (kind "raise"), each    *)
(* with the abstract parts whose digest changed since the previous event   *)
(* (wrote) and whether the file at the output path differs from its state  *)
(* before the run (pqr).  T.outcome is what the caller of run_pdb2pqr saw. *)
(* Printed lines:                                                          *)
(*   ORDER  stage started before the stages it depends on (DRIFT)          *)
(*   W      stage wrote a part it may not write      (C04 / C09 / C12)     *)
(*   EARLY  output path changed before all computation finished  (C12)     *)
(*   DIRTY  failed run changed the output path                   (C12)     *)
(*   QUIET  a stage raised but the run returned normally         (C12)     *)
(*   MOVE   input heavy atoms moved although options forbid it   (C04)     *)
(***************************************************************************)
EXTENDS Pipeline, Json, IOUtils, SequencesExt
VARIABLES tid, l
Traces == JsonDeserialize(IOEnv.TRACE_FILE)
T  == Traces[tid]
Ev == T.ev[l]

TInit == /\ tid \in 1..Len(Traces) /\ l = 1
         /\ opts = Traces[tid].opts /\ fs0 = Traces[tid].fs0 /\ fault = "none"
         /\ done = {} /\ changed = [p \in Parts |-> {}] /\ pqr = "untouched" /\ result = "running"

Say(c, msg) == IF c THEN TRUE ELSE PrintT(msg)

TExit ==
  /\ Ev.kind = "exit"
  /\ Say(Ev.stage \in done \/ Ready(Ev.stage), <<"ORDER", T.id, l, Ev.stage>>)
  /\ \A i \in 1..Len(Ev.wrote) :
        Say(Ev.wrote[i] \in Writes(Ev.stage, opts), <<"W", T.id, l, Ev.stage, Ev.wrote[i]>>)
  /\ Say(~Ev.pqr \/ pqr = "written" \/ (Ev.stage = "PrintPqr" /\ AllComputed), <<"EARLY", T.id, l, Ev.stage>>)
  /\ done' = done \cup {Ev.stage}
  /\ changed' = [p \in Parts |-> IF p \in ToSet(Ev.wrote) THEN changed[p] \cup {Ev.stage} ELSE changed[p]]
  /\ pqr' = IF Ev.pqr THEN "written" ELSE pqr
  /\ UNCHANGED result
TRaise ==
  /\ Ev.kind = "raise"
  /\ Say(~Ev.pqr \/ "PrintPqr" \in done, <<"DIRTY", T.id, l, Ev.stage>>)
  /\ result' = "error"
  /\ changed' = [p \in Parts |-> IF p \in ToSet(Ev.wrote) THEN changed[p] \cup {Ev.stage} ELSE changed[p]]
  /\ UNCHANGED <<done, pqr>>
TNext == /\ l <= Len(T.ev) /\ l' = l + 1 /\ (TExit \/ TRaise) /\ UNCHANGED <<tid, opts, fs0, fault>>
TSpec == TInit /\ [][TNext]_<<vars, tid, l>>

Forbidden == opts.clean \/ opts.assignOnly \/ (~opts.debump /\ ~opts.opt)
AtEnd == (l = Len(T.ev) + 1) =>
   /\ Say(~(result = "error" /\ T.outcome = "ok"), <<"QUIET", T.id, l, "">>)
   /\ Say(~(T.outcome = "error" /\ T.pqrfinal /\ "PrintPqr" \notin done), <<"DIRTY", T.id, l, "end">>)
   /\ Say(~(T.outcome = "ok" /\ ~T.pqrfinal /\ T.expectfile), <<"NOFILE", T.id, l, "">>)
   /\ Say(~Forbidden \/ changed["heavy"] \subseteq {"SetupMolecule"}, <<"MOVE", T.id, l, "">>)
   /\ PrintT(<<"END", T.id, l>>)
================================================================================
