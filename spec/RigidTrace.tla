--------------------------------- MODULE RigidTrace ---------------------------------
(* Trace validation for Rigid.  kind "fit": one real call of quatfit.find_coordinates on a case   *)
(* TLC generated (T.q, T.ma = N x exact image in milli-A, T.obs = returned coordinates minus the   *)
(* translation, micro-A).  kind "turn": one real torsion change (Debump.set_dihedral_angle,        *)
(* Residue.rotate_tetrahedral or quatfit.qchichange): T.want / T.got are the requested and the     *)
(* independently re-measured torsion (milli-degree), T.dist the largest change of a distance       *)
(* between a moved atom and an axis atom and T.still the largest displacement of an atom that      *)
(* must not move (nano-A).                                                                         *)
EXTENDS Naturals, Integers, Sequences, FiniteSets, TLC, Json, IOUtils
R == INSTANCE Rigid WITH QRange <- {}, Templates <- <<>>, NShifts <- 0, Emit <- FALSE,
                         q <- <<1,0,0,0>>, tpl <- 1, shift <- 1, mp <- <<>>, ma <- <<>>, pc <- "done"
Traces == JsonDeserialize(IOEnv.TRACE_FILE)
VARIABLE tid
T == Traces[tid]
Abs(v) == IF v < 0 THEN -v ELSE v
AngDiff(a, b) == LET d == (a - b) % 360000 IN IF d > 180000 THEN 360000 - d ELSE d     \* milli-degrees
FitBad  == IF R!Within(T.q, T.ma, T.obs, 2) THEN {} ELSE {"ExactPlacement"}
TurnBad == (IF AngDiff(T.want, T.got) <= 50 THEN {} ELSE {"TorsionReached"}) \cup
           (IF T.dist <= 1000 THEN {} ELSE {"AxisDistancesKept"}) \cup
           (IF T.still <= 1000 THEN {} ELSE {"OthersUnmoved"})
TInit == tid \in 1..Len(Traces)
TNext == FALSE /\ UNCHANGED tid
TSpec == TInit /\ [][TNext]_tid
Report == PrintT(<<"T", T.id, IF T.kind = "fit" THEN FitBad ELSE TurnBad>>)
================================================================================
