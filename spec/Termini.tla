---------------------------------- MODULE Termini ----------------------------------
(***************************************************************************)
(* Chain termini (property C02).  Code anchors: Biomolecule.set_termini    *)
(* (first pass: assign_termini per chain; second pass: the walk that finds *)
(* hidden chain ends - an amino residue with OXT, a nucleotide with H3T /  *)
(* a name ending in 3 - and splits the chain, re-assigning termini of the  *)
(* remainder and of the new chain), Biomolecule.assign_termini (cyclic     *)
(* test, N-/5'-terminus of the first residue, C-/3'-terminus of the last   *)
(* residue with the backward scan over trailing hetero residues).          *)
(*                                                                         *)
(* Residues are numbered 1..NRes in file order; Kind[r] is                 *)
(*   "A" amino acid, "AO" amino acid carrying OXT, "N" nucleotide,         *)
(*   "N3" nucleotide marked as 3' end, "W" water, "L" other hetero group,  *)
(*   "C" cap (NH2 / NME).                                                  *)
(* Chains0 is the initial partition into chains (sequences of residue      *)
(* numbers); Cyc is the set of <<first, last>> pairs whose N and C atoms   *)
(* are closer than 1.35 A.                                                 *)
(***************************************************************************)
EXTENDS Naturals, Sequences, FiniteSets, TLC, Json, SequencesExt

CONSTANTS Cases,   \* set of [kind : Seq(kinds), chains : Seq(Seq(Nat)), cyc : set of pairs, nn : BOOLEAN, nc : BOOLEAN]
          Emit

VARIABLES cs,       \* the case under consideration
          chains,   \* current chains: sequence of sequences of residue numbers (Biomolecule.chains)
          flag,     \* residue -> [n, c, t5, t3] : is_n_term / is_c_term / is5term / is3term
          patches,  \* residue -> sequence of terminus patches applied
          pc, chn,  \* program counter; ch_num / chain index of the first pass
          orig, k, reslist   \* the walk over origlist: position k, residues collected since the last split
vars == <<cs, chains, flag, patches, pc, chn, orig, k, reslist>>

Amino(r) == cs.kind[r] \in {"A", "AO"}
Nuc(r)   == cs.kind[r] \in {"N", "N3"}
NoFlag == [n |-> FALSE, c |-> FALSE, t5 |-> FALSE, t3 |-> FALSE]

(***************************************************************************)
(* assign_termini(chain) as a function on (flag, patches)                  *)
(***************************************************************************)
\* backward scan for the C-/3'-terminus when the last residue is neither amino nor nucleic:
\* index of the residue that gets the terminus (0: none - empty scan or stopped at a cap)
RECURSIVE Back(_, _)
Back(c, i) == IF i = 0 THEN 0
              ELSE IF Amino(c[i]) \/ Nuc(c[i]) THEN i
              ELSE IF cs.kind[c[i]] = "C" THEN 0 ELSE Back(c, i - 1)
Assign(c, fp) ==
  LET f == fp[1]  p == fp[2]
      first == c[1]  last == c[Len(c)]
      cyclic == Amino(first) /\ Amino(last) /\ <<first, last>> \in cs.cyc
      f1 == IF Amino(first) THEN [f EXCEPT ![first].n = TRUE] ELSE IF Nuc(first) THEN [f EXCEPT ![first].t5 = TRUE] ELSE f
      p1 == IF Amino(first) THEN [p EXCEPT ![first] = Append(@, IF cs.nn THEN "NEUTRAL-NTERM" ELSE "NTERM")]
            ELSE IF Nuc(first) THEN [p EXCEPT ![first] = Append(@, "5TERM")] ELSE p
      e  == Back(c, Len(c))
      t  == IF e = 0 THEN 0 ELSE c[e]
      f2 == IF t = 0 THEN f1 ELSE IF Amino(t) THEN [f1 EXCEPT ![t].c = TRUE] ELSE [f1 EXCEPT ![t].t3 = TRUE]
      p2 == IF t = 0 THEN p1
            ELSE IF Amino(t) THEN [p1 EXCEPT ![t] = Append(@, IF cs.nc THEN "NEUTRAL-CTERM" ELSE "CTERM")]
            ELSE [p1 EXCEPT ![t] = Append(@, "3TERM")]
  IN IF cyclic THEN fp ELSE <<f2, p2>>

Init == /\ cs \in Cases
        /\ chains = cs.chains
        /\ flag = [r \in 1..Len(cs.kind) |-> NoFlag] /\ patches = [r \in 1..Len(cs.kind) |-> <<>>]
        /\ pc = "first" /\ chn = 1 /\ orig = <<>> /\ k = 0 /\ reslist = <<>>

\* first pass: one chain per step
First == /\ pc = "first"
         /\ IF chn <= Len(chains)
            THEN /\ LET r == Assign(chains[chn], <<flag, patches>>) IN flag' = r[1] /\ patches' = r[2]
                 /\ chn' = chn + 1 /\ UNCHANGED <<pc, orig, k, reslist>>
            ELSE /\ pc' = "walk" /\ chn' = 1 /\ UNCHANGED <<flag, patches, orig, k, reslist>>
         /\ UNCHANGED <<cs, chains>>
\* second pass: start walking chain chn
StartChain == /\ pc = "walk"
              /\ IF chn <= Len(chains)
                 THEN orig' = chains[chn] /\ k' = 1 /\ reslist' = <<>> /\ pc' = "res" /\ UNCHANGED chn
                 ELSE pc' = "done" /\ UNCHANGED <<orig, k, reslist, chn>>
              /\ UNCHANGED <<cs, chains, flag, patches>>
Hidden(r) == \/ (Amino(r) /\ cs.kind[r] = "AO" /\ ~flag[r].c)
             \/ (cs.kind[r] = "N3" /\ ~flag[r].t3)
\* one residue of origlist
Walk == /\ pc = "res"
        /\ IF k > Len(orig)
           THEN pc' = "walk" /\ chn' = chn + 1 /\ UNCHANGED <<chains, flag, patches, k, reslist>>
           ELSE LET r == orig[k]  rl == Append(reslist, r) IN
                IF Hidden(r)
                THEN \* split: residues collected so far become a new chain inserted before the current one
                     LET rest == SelectSeq(chains[chn], LAMBDA x : \A i \in 1..Len(rl) : rl[i] # x)
                         newchains == SubSeq(chains, 1, chn - 1) \o <<rl, rest>> \o SubSeq(chains, chn + 1, Len(chains))
                         a1 == IF rest = <<>> THEN <<flag, patches>> ELSE Assign(rest, <<flag, patches>>)
                         a2 == Assign(rl, a1)
                     IN /\ chains' = newchains /\ flag' = a2[1] /\ patches' = a2[2]
                        /\ reslist' = <<>> /\ chn' = chn + 1 /\ k' = k + 1 /\ pc' = IF rest = <<>> THEN "error" ELSE pc
                ELSE reslist' = rl /\ k' = k + 1 /\ UNCHANGED <<chains, flag, patches, chn, pc>>
        /\ UNCHANGED <<cs, orig>>
Next == First \/ StartChain \/ Walk
Spec == Init /\ [][Next]_vars

(***************************************************************************)
(* The property, stated on the input independently of the algorithm:       *)
(* a segment is a maximal run of amino acids (or of nucleotides) of one    *)
(* input chain, cut after every residue that carries OXT (is marked 3').   *)
(***************************************************************************)
Poly(r) == IF Amino(r) THEN "aa" ELSE IF Nuc(r) THEN "na" ELSE "x"
EndsSegment(c, i) == \/ i = Len(c) \/ Poly(c[i + 1]) # Poly(c[i]) \/ cs.kind[c[i]] \in {"AO", "N3"}
StartsSegment(c, i) == i = 1 \/ Poly(c[i - 1]) # Poly(c[i]) \/ cs.kind[c[i - 1]] \in {"AO", "N3"}
\* the whole input chain is a head-to-tail cyclic peptide
CyclicChain(c) == Amino(c[1]) /\ Amino(c[Len(c)]) /\ <<c[1], c[Len(c)]>> \in cs.cyc
                  /\ \A i \in 1..(Len(c) - 1) : cs.kind[c[i]] = "A"
WantN(r) == \E ci \in 1..Len(cs.chains) : LET c == cs.chains[ci] IN
               \E i \in 1..Len(c) : c[i] = r /\ Amino(r) /\ StartsSegment(c, i) /\ ~CyclicChain(c)
WantC(r) == \E ci \in 1..Len(cs.chains) : LET c == cs.chains[ci] IN
               \E i \in 1..Len(c) : c[i] = r /\ Amino(r) /\ EndsSegment(c, i) /\ ~CyclicChain(c)
                                     /\ ~(i < Len(c) /\ cs.kind[c[i + 1]] = "C")       \* capped end: no charged terminus
Want5(r) == \E ci \in 1..Len(cs.chains) : LET c == cs.chains[ci] IN
               \E i \in 1..Len(c) : c[i] = r /\ Nuc(r) /\ StartsSegment(c, i)
Want3(r) == \E ci \in 1..Len(cs.chains) : LET c == cs.chains[ci] IN
               \E i \in 1..Len(c) : c[i] = r /\ Nuc(r) /\ EndsSegment(c, i)
\* for a flag function fl (the model's or an observed one)
Bad(fl) == {<<"NTerminusAtSegmentStart", r>> : r \in {x \in 1..Len(cs.kind) : fl[x].n # WantN(x)}}
           \cup {<<"CTerminusAtSegmentEnd", r>> : r \in {x \in 1..Len(cs.kind) : fl[x].c # WantC(x)}}
           \cup {<<"FivePrimeAtStrandStart", r>> : r \in {x \in 1..Len(cs.kind) : fl[x].t5 # Want5(x)}}
           \cup {<<"ThreePrimeAtStrandEnd", r>> : r \in {x \in 1..Len(cs.kind) : fl[x].t3 # Want3(x)}}
TerminiOncePerEnd == pc = "done" => Bad(flag) = {}
NoCrash == pc # "error"
EmitInv == (Emit /\ pc \in {"done", "error"}) =>
   PrintT("@" \o ToJson([cs |-> [kind |-> cs.kind, chains |-> cs.chains, cyc |-> SetToSeq(cs.cyc), nn |-> cs.nn, nc |-> cs.nc],
                          pc |-> pc, flag |-> flag, patches |-> patches, chains |-> chains]))
================================================================================
