--------------------------------- MODULE HistoryTrace ---------------------------------
(* Trace validation for History: T.procs is a list of processes, each a record              *)
(* [seed, runs: sequence of [cfg, out]] recorded from real interpreters.  The trace spec     *)
(* consumes every run of every process and keeps, per configuration, the first outcome seen  *)
(* (known).  A run whose outcome differs from the known one is reported:                     *)
(* <<"DIFF", process index, run index, cfg>>.                                                *)
EXTENDS Naturals, Sequences, FiniteSets, TLC, Json, IOUtils
T == JsonDeserialize(IOEnv.TRACE_FILE)
VARIABLES p, k, known
Say(c, msg) == IF c THEN TRUE ELSE PrintT(msg)
TInit == p = 1 /\ k = 1 /\ known = <<>>
Cur == T.procs[p].runs[k]
TStep == /\ p <= Len(T.procs)
         /\ IF k > Len(T.procs[p].runs) THEN p' = p + 1 /\ k' = 1 /\ UNCHANGED known
            ELSE /\ k' = k + 1 /\ p' = p
                 /\ IF Cur.cfg \in DOMAIN known
                    THEN Say(known[Cur.cfg] = Cur.out, <<"DIFF", p, k, Cur.cfg>>) /\ UNCHANGED known
                    ELSE known' = (Cur.cfg :> Cur.out) @@ known
TSpec == TInit /\ [][TStep]_<<p, k, known>>
AtEnd == (p = Len(T.procs) + 1) => PrintT(<<"END", Cardinality(DOMAIN known)>>)
================================================================================
