--------------------------------- MODULE ApplyPatch ---------------------------------
(* Biomolecule.apply_patch (pdb2pqr/biomolecule.py) on the level of atom names: what a run-time patch   *)
(* (NTERM, CTERM, 5TERM, PEPTIDE, ASH, HIP, ...) does to the residue's reference template and to the    *)
(* residue itself.  One trace = one real call, recorded by vlib/tracer.py (group "patch"):              *)
(*   ref0, res0   names of the reference template / of the residue's atoms before the call              *)
(*   add, rem     names the patch adds / removes;  alt: sequence of <<old, new>> renamings              *)
(*   ref1, res1   the same name sets after the call                                                     *)
(* Steps of the code, in order: add the patch atoms to (a copy of) the reference; for every name to be  *)
(* removed, remove the residue's atom of that name - or of the name the repair step treats as the same  *)
(* atom (OP1 = O1P, OP2 = O2P; fix 85df710) - and delete it from the reference; rename the residue's    *)
(* atoms that carry an old name of the patch.  Printed per trace: <<"T", id, clauses violated>>.        *)
EXTENDS Naturals, Sequences, FiniteSets, TLC, Json, IOUtils
Traces == JsonDeserialize(IOEnv.TRACE_FILE)
VARIABLE tid
Set(s) == {s[k] : k \in DOMAIN s}
Alias(n) == IF n = "O1P" THEN {"OP1"} ELSE IF n = "O2P" THEN {"OP2"} ELSE {}
Gone(t) == Set(t.rem) \cup UNION {Alias(n) : n \in Set(t.rem)}
Renamed(t, n) == IF \E k \in DOMAIN t.alt : t.alt[k][1] = n
                 THEN t.alt[CHOOSE k \in DOMAIN t.alt : t.alt[k][1] = n][2] ELSE n
RefExpected(t) == (Set(t.ref0) \cup Set(t.add)) \ Set(t.rem)
ResExpected(t) == {Renamed(t, n) : n \in Set(t.res0) \ Gone(t)}
Clauses(t) == (IF Set(t.ref1) # RefExpected(t) THEN {"ReferenceIsPatched"} ELSE {})
        \cup (IF Set(t.res1) # ResExpected(t) THEN {"ResidueFollows"} ELSE {})
        \cup (IF Set(t.res1) \cap Gone(t) # {} THEN {"NoRemovedAtomLeft"} ELSE {})
        \cup (IF Cardinality(Set(t.res1)) # Len(t.res1) THEN {"NamesUnique"} ELSE {})
Init == tid \in 1..Len(Traces)
Next == UNCHANGED tid
Spec == Init /\ [][Next]_tid
Report == PrintT(<<"T", Traces[tid].id, Clauses(Traces[tid])>>)
=====================================================================================
