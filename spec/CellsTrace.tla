-------------------------------- MODULE CellsTrace --------------------------------
(***************************************************************************)
(* Trace validation for Cells (code -> spec), property C14.                *)
(* A trace is the life of one cells.Cells object inside a real run (or a   *)
(* TLC-generated history replayed on the real class): structural events    *)
(* new/del/set (atom enters / leaves the structure, coordinates assigned)  *)
(* recorded by the run-time wrappers, cell events add/rem/reset, and       *)
(* query events with the list get_near_cells returned.                     *)
(* (Reports are written with IF/ELSE, not disjunction: TLC evaluates every *)
(* disjunct of an action.)                                                 *)
(* Conformance (printed as K/P/R/X lines, = DRIFT): logged cell keys and   *)
(* query results must equal what the spec's actions compute.               *)
(* Property (printed as Q lines): at every query the *returned* list must  *)
(* contain every atom of the structure closer than the cell size, and no   *)
(* in-range atom that has left the structure.                              *)
(***************************************************************************)
EXTENDS Integers, Sequences, FiniteSets, TLC, Json, IOUtils, SequencesExt

CONSTANT Size
VARIABLES pos, cellmap, cellOf, hist, pos0, tid, l, present

Traces == JsonDeserialize(IOEnv.TRACE_FILE)
C == INSTANCE Cells WITH Atoms <- {}, Positions <- {}, AllowRawMove <- TRUE, MaxOps <- 0

T  == Traces[tid]
Ev == T.ev[l]
None == <<>>

TInit == /\ tid \in 1..Len(Traces) /\ l = 1
         /\ pos = [a \in 1..Traces[tid].n |-> <<0, 0, 0>>]
         /\ cellOf = [a \in 1..Traces[tid].n |-> None]
         /\ cellmap = <<>> /\ present = {} /\ hist = <<>> /\ pos0 = <<>>

InBucket(a) == cellOf[a] # None /\ cellOf[a] \in DOMAIN cellmap
               /\ \E i \in 1..Len(cellmap[cellOf[a]]) : cellmap[cellOf[a]][i] = a

\* logged coordinates are truncated to 0.001 A: "surely in range" leaves a margin of 0.003 A
Abs(v) == IF v < 0 THEN -v ELSE v
NearSure(p, q) ==
  LET lim == Size * 1000 - 3 IN
  /\ Abs(p[1] - q[1]) < lim /\ Abs(p[2] - q[2]) < lim /\ Abs(p[3] - q[3]) < lim
  /\ (p[1]-q[1])*(p[1]-q[1]) + (p[2]-q[2])*(p[2]-q[2]) + (p[3]-q[3])*(p[3]-q[3]) < lim * lim
Missing(a, res) == {b \in present \ {a} : NearSure(pos[a], pos[b]) /\ b \notin ToSet(res)}
Ghosts(a, res)  == {b \in ToSet(res) : b \notin present /\ NearSure(pos[a], pos[b])}

New   == Ev.e = "new" /\ present' = present \cup {Ev.a} /\ pos' = [pos EXCEPT ![Ev.a] = Ev.p]
         /\ UNCHANGED <<cellmap, cellOf>>
Del   == Ev.e = "del" /\ present' = present \ {Ev.a} /\ UNCHANGED <<pos, cellmap, cellOf>>
Set   == Ev.e = "set" /\ pos' = [pos EXCEPT ![Ev.a] = Ev.p] /\ UNCHANGED <<present, cellmap, cellOf>>
Reset == Ev.e = "reset" /\ cellmap' = <<>> /\ cellOf' = [a \in DOMAIN cellOf |-> None]
         /\ UNCHANGED <<present, pos>>
Add   == /\ Ev.e = "add"
         /\ (IF Ev.p = pos[Ev.a] THEN TRUE ELSE PrintT(<<"P", T.id, l, Ev.a>>))   \* untracked coordinate change
         /\ (IF Ev.key = C!Key(pos[Ev.a]) THEN TRUE
             ELSE PrintT(<<"K", T.id, l, Ev.a, Ev.key, C!Key(pos[Ev.a])>>))
         /\ C!AddCell(Ev.a) /\ UNCHANGED <<present, pos>>
Rem   == /\ Ev.e = "rem"
         /\ IF cellOf[Ev.a] = None \/ InBucket(Ev.a)
            THEN C!RemoveCell(Ev.a)
            ELSE PrintT(<<"X", T.id, l, Ev.a>>) /\ UNCHANGED <<cellmap, cellOf>>
         /\ UNCHANGED <<present, pos>>
Query == /\ Ev.e = "query"
         /\ (IF Ev.res = C!Query(Ev.a) THEN TRUE ELSE PrintT(<<"R", T.id, l, Ev.a>>))
         /\ LET m == Missing(Ev.a, Ev.res)  g == Ghosts(Ev.a, Ev.res) IN
            IF m = {} /\ g = {} THEN TRUE ELSE PrintT(<<"Q", T.id, l, Ev.a, SetToSeq(m), SetToSeq(g)>>)
         /\ UNCHANGED <<present, pos, cellmap, cellOf>>

\* the use of the queries in hydrogen-bond detection: for a donor / acceptor atom a of an optimisable group, "want" are the
\* eligible partners closer than 4.3 A (brute force over the structure, measured by the harness), "got" the partners of
\* the potential bonds the optimiser recorded for a.  A wanted partner is lost when both atoms are filed where they are
\* (so that a query for a returns it: 4.3 A is below the cell size) and yet no potential bond was recorded.  Partners
\* lost because one of the two is filed in a stale cell belong to the Stale / Query clauses.
FiledRight(a) == a \in present /\ cellOf[a] # None /\ cellOf[a] = C!Key(pos[a])
Detect == /\ Ev.e = "detect"
          /\ LET lost == {b \in ToSet(Ev.want) \ ToSet(Ev.got) : Size * 1000 > 4300 /\ FiledRight(Ev.a) /\ FiledRight(b)} IN
             IF lost = {} THEN TRUE ELSE PrintT(<<"D", T.id, l, Ev.a, SetToSeq(lost)>>)
          /\ UNCHANGED <<present, pos, cellmap, cellOf>>

TNext == /\ l <= Len(T.ev) /\ l' = l + 1 /\ UNCHANGED <<tid, hist, pos0>>
         /\ (New \/ Del \/ Set \/ Reset \/ Add \/ Rem \/ Query \/ Detect)
TSpec == TInit /\ [][TNext]_<<pos, cellmap, cellOf, hist, pos0, tid, l, present>>

\* at the end of the life of the Cells object (its last operation): every atom of the structure that is filed is filed
\* in the cell of its current position (Consistent of Cells.tla, on the recorded history)
Stale == {a \in present : cellOf[a] # None /\ cellOf[a] # C!Key(pos[a])}
Done == (l = Len(T.ev) + 1) =>
          /\ (Stale = {} \/ PrintT(<<"S", T.id, l, SetToSeq(Stale)>>))
          /\ PrintT(<<"END", T.id, l>>)
================================================================================
