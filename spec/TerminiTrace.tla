--------------------------------- MODULE TerminiTrace ---------------------------------
(* Trace validation for Termini.                                                                *)
(* kind "flags": one real read_pdb / Biomolecule / set_termini / update_bonds / set_states on   *)
(*   the concretisation of a TLC-generated case: T.obs = per residue (file order) the observed  *)
(*   is_n_term / is_c_term / is5term / is3term, T.err = exception class ("" if none).           *)
(*   The spec's two passes are replayed; acc = (same flags); the C02 clauses are evaluated on   *)
(*   the observed flags.                                                                        *)
(* kind "charge": one real pipeline run; T.res = per residue [name (input residue name), cls    *)
(*   ("aa" | "na" | "wat" | "other"), n, c (declared chain ends), full (fully parameterised),   *)
(*   q (net charge x 10^4), nn, nc (neutral terminus options)], T.total = sum of the charge     *)
(*   column x 10^4, T.strands = per nucleic strand [len, q, full].                              *)
EXTENDS Termini, IOUtils, Integers
VARIABLES tid
Traces == JsonDeserialize(IOEnv.TRACE_FILE)
T == Traces[tid]
Dummy == [kind |-> <<"W">>, chains |-> <<<<1>>>>, cyc |-> {}, nn |-> FALSE, nc |-> FALSE]
CaseOf(t) == IF t.kind = "flags"
             THEN [kind |-> t.cs.kind, chains |-> t.cs.chains,
                   cyc |-> {<<t.cs.cyc[i][1], t.cs.cyc[i][2]>> : i \in 1..Len(t.cs.cyc)}, nn |-> t.cs.nn, nc |-> t.cs.nc]
             ELSE Dummy
TInit == /\ tid \in 1..Len(Traces) /\ cs = CaseOf(Traces[tid])
         /\ chains = CaseOf(Traces[tid]).chains
         /\ flag = [r \in 1..Len(CaseOf(Traces[tid]).kind) |-> NoFlag]
         /\ patches = [r \in 1..Len(CaseOf(Traces[tid]).kind) |-> <<>>]
         /\ pc = "first" /\ chn = 1 /\ orig = <<>> /\ k = 0 /\ reslist = <<>>
TNext == Next /\ UNCHANGED tid
TSpec == TInit /\ [][TNext]_<<vars, tid>>

\* formal charge of a side-chain state, by the residue name of that state (chemistry, not code)
Side(name) == CASE name \in {"ASP", "GLU", "CYM", "TYM"} -> -1
                [] name \in {"LYS", "ARG", "HIP", "HSP"} -> 1
                [] OTHER -> 0
Formal(r) == Side(r.name) + (IF r.n /\ ~r.nn THEN 1 ELSE 0) - (IF r.c /\ ~r.nc THEN 1 ELSE 0)
\* charges are written with four decimals and parameter files are accurate to about 1e-4 per atom: a residue / strand /
\* total is "equal" within 1e-3 e (the tolerance pdb2pqr's own integrality guard uses)
Abs(v) == IF v < 0 THEN -v ELSE v
Near(a, b) == Abs(a - b) <= 10
ChargeBad ==
  {<<"ChargeIsFormal", i>> : i \in {j \in 1..Len(T.res) : T.res[j].cls = "aa" /\ T.res[j].full /\ ~Near(T.res[j].q, 10000 * Formal(T.res[j]))}}
  \cup {<<"WaterNeutral", i>> : i \in {j \in 1..Len(T.res) : T.res[j].cls = "wat" /\ T.res[j].full /\ ~Near(T.res[j].q, 0)}}
  \cup {<<"StrandCharge", i>> : i \in {j \in 1..Len(T.strands) : T.strands[j].full /\ ~Near(T.strands[j].q, -10000 * (T.strands[j].len - 1))}}
  \cup (IF (T.total + 10) % 10000 <= 20 THEN {} ELSE {<<"TotalIntegral", 0>>})
ObsFlag == [r \in 1..Len(T.obs) |-> T.obs[r]]
Report == pc \in {"done", "error"} =>
   IF T.kind = "flags"
   THEN PrintT(<<"T", T.id, (pc = "error") = (T.err # "") /\ (pc = "error" \/ flag = ObsFlag),
                 SetToSeq(IF T.err # "" THEN {<<"NoCrash", 0>>} ELSE Bad(ObsFlag))>>)
   ELSE PrintT(<<"T", T.id, TRUE, SetToSeq(ChargeBad)>>)
================================================================================
