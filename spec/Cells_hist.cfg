SPECIFICATION Spec
CONSTANTS
  Atoms = {"a1", "a2", "a3"}
  Size = 2
  Positions <- MCPositions
  AllowRawMove = FALSE
  MaxOps = 4
  Emit = FALSE
VIEW view
INVARIANT Consistent
INVARIANT QueryComplete
INVARIANT QuerySound
