SPECIFICATION Spec
POSTCONDITION Report
