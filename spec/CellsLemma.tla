--------------------------------- MODULE CellsLemma ---------------------------------
(* The covering lemma of the cell list, for all integers (Apalache; TLC's key grid in Cells.tla covers  *)
(* a bounded window only).  Coordinates are in milli-Angstrom.  Key1 is the arithmetic of              *)
(* Cells.add_cell on one axis: int(x) truncates toward zero, // is floor division, the sign test is on  *)
(* the coordinate itself.  Lemma: two coordinates closer than the cell size lie in the same or in       *)
(* adjacent cells, so the 27-cell neighbourhood of get_near_cells holds every atom within range.        *)
(* BrokenLemma states the same for a plausible wrong negative branch and must be refuted.               *)
EXTENDS Integers

VARIABLES
  \* @type: Int;
  x,
  \* @type: Int;
  y,
  \* @type: Int;
  size

\* @type: (Int) => Int;
Trunc(m) == IF m >= 0 THEN m \div 1000 ELSE -((-m) \div 1000)
\* @type: (Int, Int) => Int;
Key1(m, s) == IF m < 0 THEN ((Trunc(m) - 1) \div s) * s ELSE (Trunc(m) \div s) * s
\* @type: (Int, Int) => Int;
BadKey1(m, s) == IF m < 0 THEN (Trunc(m) \div s) * s - s ELSE (Trunc(m) \div s) * s

Init == x \in Int /\ y \in Int /\ size \in {2, 5}
Next == UNCHANGED <<x, y, size>>

Lemma == (x - y < size * 1000 /\ y - x < size * 1000)
           => (Key1(x, size) - Key1(y, size) <= size /\ Key1(y, size) - Key1(x, size) <= size)
\* every cell is a multiple of the cell size and holds the coordinate (up to the one-unit shift of the negative branch)
Aligned == Key1(x, size) % size = 0
BrokenLemma == (x - y < size * 1000 /\ y - x < size * 1000)
           => (BadKey1(x, size) - BadKey1(y, size) <= size /\ BadKey1(y, size) - BadKey1(x, size) <= size)
=====================================================================================
