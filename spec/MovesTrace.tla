---------------------------------- MODULE MovesTrace ----------------------------------
(* Trace validation for Moves.                                                                     *)
(* kind "topology": a case read off the real objects of the current tree (one residue type at one   *)
(*   chain position, after set_termini / add_hydrogens / set_reference_distance) with the answers   *)
(*   of the real code: T.realrank (refdistance per atom) and T.realmoved (get_moveable_names of the  *)
(*   dihedral's pivot).  The spec computes rank and moved set; acc = equal; RigidSafe is evaluated   *)
(*   on the real answer.                                                                            *)
(* kind "turn": one real torsion change recorded in a run (set_dihedral_angle, rotate_tetrahedral,  *)
(*   flip): deviations in micro-Angstrom measured by the harness: axisdev (distance of a moved atom *)
(*   to an axis atom), pairdev (distance between two moved atoms), axismove (displacement of an     *)
(*   axis atom), plus the moved names and the residue's bonds for RigidSafe.                        *)
(* kind "final": end of a run: per residue the largest change of a bond length / bond angle among   *)
(*   input heavy atoms (micro-A / micro-degree), the largest displacement of a backbone or cap atom *)
(*   and of any input heavy atom, whether the options forbid movement.                              *)
EXTENDS Naturals, Integers, Sequences, FiniteSets, TLC, Json, IOUtils, SequencesExt
CONSTANT Component
Traces == JsonDeserialize(IOEnv.TRACE_FILE)
CasesOf == [t \in 1..Len(Traces) |-> Traces[t].cs]
VARIABLES c, rank, frontier, depth, moved, pc
M == INSTANCE Moves WITH Cases <- CasesOf
T == Traces[c]
TSpec == M!Spec
RealMoved == {T.realmoved[i] : i \in 1..Len(T.realmoved)}
RealRank == [a \in M!Atoms |-> T.realrank[a]]
\* rotate_tetrahedral places hydrogens about a bond (also on the backbone nitrogen): only the numeric part and
\* "only hydrogens move" apply to it; the side-chain clauses apply to set_dihedral_angle (debump steps, flips)
IsH(nm) == nm # "" /\ (SubSeq(nm, 1, 1) = "H" \/ (Len(nm) >= 2 /\ SubSeq(nm, 1, 2) = "LP"))   \* hydrogens and lone-pair placeholders
TurnBad == (IF T.axisdev <= 1000 THEN {} ELSE {<<"AxisDistancesKept", "">>}) \cup
           (IF T.pairdev <= 1000 THEN {} ELSE {<<"MovedSetRigid", "">>}) \cup
           (IF T.axismove <= 1 THEN {} ELSE {<<"AxisAtomsFixed", "">>}) \cup
           (IF T.routine = "set_dihedral_angle" THEN M!Bad(RealMoved)
            ELSE {<<"OnlyHydrogensMove", a>> : a \in {x \in RealMoved : ~IsH(x)}})
FinalBad == (IF T.bonddev <= 1000 THEN {} ELSE {<<"BondLengthsKept", T.worst>>}) \cup
            (IF T.angledev <= 50000 THEN {} ELSE {<<"BondAnglesKept", T.worst>>}) \cup
            (IF T.backbonemove <= 1 THEN {} ELSE {<<"BackboneNeverMoves", T.worst>>}) \cup
            (IF ~T.forbidden \/ T.anymove <= 1 THEN {} ELSE {<<"NoMoveWhenForbidden", T.worst>>})
Report == pc = "done" =>
   PrintT(<<"T", T.id,
            IF T.kind = "topology" THEN (moved = RealMoved /\ \A a \in M!Atoms : M!Final(a) = RealRank[a]) ELSE TRUE,
            SetToSeq(IF T.kind = "topology" THEN M!Bad(RealMoved) ELSE IF T.kind = "turn" THEN TurnBad ELSE FinalBad)>>)
================================================================================
