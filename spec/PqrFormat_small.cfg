SPECIFICATION Spec
CONSTANTS
  Types = {"ATOM", "HETATM"}
  Serials = {"1", "99999", "100000"}
  Names = {"N", "HD11"}
  ResNames = {"ALA", "NALA"}
  Chains = {"", "A"}
  ResSeqs = {"-5", "9999", "10000"}
  ICodes = {"", "A"}
  Xs = {"0.000", "-999.999", "-1000.000", "99999.999"}
  Ys = {"1.500"}
  Zs = {"-12.345"}
  Charges = {"-0.8340"}
  Radii = {"1.8240"}
  KeepChain = {TRUE, FALSE}
  Whitespace = {TRUE, FALSE}
  Emit = FALSE
INVARIANT Confined
