#!/bin/sh
# usage: tools/sweep.sh "<seeds>" [tier] [ids...]   runs every registered check for each seed; prints one line per run
SEEDS="${1:-1 2 3}"; TIER="${2:-quick}"; shift 2 2>/dev/null
IDS="${*:-$(python3 -c "import json;print(' '.join(c['property_id'] for c in json.load(open('MANIFEST.json'))['checks']))")}"
cd "$(dirname "$0")/.."
export VERIF_EVIDENCE_DIR="$(pwd)/.work/sweep-evidence"; mkdir -p "$VERIF_EVIDENCE_DIR"
for s in $SEEDS; do for id in $IDS; do
  out=$(timeout 3600 ./check $id --tier $TIER --seed $s 2>&1); rc=$?
  echo "seed=$s $id rc=$rc :: $(echo "$out" | grep -E '^\[|MACHINERY' | tail -1 | cut -c1-160)"
  [ $rc -ne 0 ] && echo "$out" | grep -E "VIOLATION|key=|MACHINERY" | head -6 | cut -c1-300
done; done
