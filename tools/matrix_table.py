#!/usr/bin/env python3
"""usage: tools/matrix_table.py <matrix logs...>  -> markdown table (seeded change x checks that report a violation)"""
import json, os, re, sys
rows = {}
for f in sys.argv[1:]:
    for ln in open(f):
        m = re.match(r"(C\d\d-[A-Z]) (C\d\d) rc=(\d)", ln)
        if m:
            rows.setdefault(m.group(1), {})[m.group(2)] = int(m.group(3))
print("| change | what it does (first line of notes.md) | needs | caught by (quick tier) | machinery error |")
print("|---|---|---|---|---|")
for name in sorted(rows):
    d = f"/verif/seeded/{name}"
    title = open(os.path.join(d, "notes.md")).readline().strip().lstrip("# ").split("change", 1)[-1].lstrip(" ABCD-—:").strip()
    meta = json.load(open(os.path.join(d, "meta.json")))
    hit = [c for c, rc in sorted(rows[name].items()) if rc == 1]
    err = [c for c, rc in sorted(rows[name].items()) if rc not in (0, 1)]
    own = name[:3]
    hits = ", ".join(f"**{c}**" if c == own else c for c in hit) or "none"
    print(f"| {name} | {title[:110]} | {meta['needs_to_manifest'][:140]} | {hits} | {', '.join(err) or '-'} |")
