#!/bin/sh
# usage: run_stable_tests.sh <worktree dir>   -- runs the 151 offline-stable tests of the repository in that tree
cd "$1" || exit 2
export PYTHONHASHSEED=0   # test parametrisation iterates over a set: xdist workers must agree on the order
exec /venv/bin/python -m pytest -q -p no:cacheprovider --timeout=900 -n 4 -o log_cli=false \
  -k "not test_basic_cif and not test_long_pdb and not test_short_pdb and not test_dx2cube and not test_ligand_biomolecule and not test_propka_apo and not test_propka_pka and not remote and not 1FAS_pdb" 2>&1 | tail -15
