#!/bin/sh
# usage: [OWN=1] tools/matrix.sh <outfile> [seeded dirs...]   mutant x check matrix (OWN=1: only the check of the change's own property).
# For every seeded change: scratch worktree of /repo's HEAD under /tmp (removed afterwards), patch applied there,
# every registered quick check run against it through VERIF_REPO (3 checks at a time), one line per (change, check).
OUT="$1"; shift
cd "$(dirname "$0")/.."
V=$(pwd)
DIRS="${*:-$(ls -d seeded/*/)}"
IDS=$(python3 -c "import json;print(' '.join(c['property_id'] for c in json.load(open('MANIFEST.json'))['checks']))")
for d in $DIRS; do
  name=$(basename $d)
  patch=$(ls $d/patch_rebased*.diff 2>/dev/null | tail -1); [ -z "$patch" ] && patch=$d/patch.diff
  wt=/tmp/mx-$name
  git -C /repo worktree remove --force $wt 2>/dev/null
  git -C /repo worktree add -q --detach $wt HEAD || { echo "$name worktree-failed" >> "$OUT"; continue; }
  if ! git -C $wt apply "$V/$patch"; then echo "$name patch-does-not-apply" >> "$OUT"; git -C /repo worktree remove --force $wt; continue; fi
  ids="$IDS"; [ -n "$OWN" ] && ids=$(echo $name | cut -c1-3)
  for id in $ids; do echo $id; done | VERIF_REPO=$wt VERIF_EVIDENCE_DIR=$V/.work/mx-ev-$name xargs -P 3 -I{} sh -c \
    'out=$(timeout 1800 ./check {} --tier quick 2>&1); rc=$?; echo "'$name' {} rc=$rc $(echo "$out" | grep -E "key=" | head -2 | cut -c1-160 | tr "\n" "|")"' >> "$OUT"
  git -C /repo worktree remove --force $wt
  rm -rf $V/.work/mx-ev-$name
done
echo DONE >> "$OUT"
