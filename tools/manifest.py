#!/usr/bin/env python3
"""Regenerates /verif/MANIFEST.json from the table below (single source of truth) and validates it."""
import json
import os
import subprocess
import sys

HERE = os.path.dirname(os.path.dirname(os.path.abspath(__file__)))

# id -> (level, technique, level text, level note, design ref, spec modules)
CHECKS = {
 "C07": ("model_checking",
         "TLA+ spec PdbReader: TLC exhaustive over all files <= MaxLen lines; every TLC-generated file replayed into the real reader; TLC trace validation (PdbReaderTrace) of observed results",
         "TLC enumerates every input file up to the bound (21 symbols incl. blank/END/MODEL with and without serial/ENDMDL/TER/altloc/icode/CRLF/short lines/ATOM- and HETATM-waters/water without chain id, x drop-water; files <= 4 lines, the record-bookkeeping sub-alphabet to 6 lines, thorough also 14 symbols to 5 lines) on a reader model structured like read_pdb + Biomolecule.__init__, checks AllIngested on it, and each of those files is read by the real code whose projected result must equal the model's; observed results are re-judged by TLC against the declarative Expected(file).",
         "Assumes WellFormed(file) as stated in the evidence; rendering of abstract lines to PDB text and the projection of Biomolecule objects are harness code; bounded by MaxLen (4 quick, 5 thorough) and the alphabet.",
         "DESIGN.md 6/C07", ["PdbReader", "MC_PdbReader", "PdbReaderTrace"]),
 "C14": ("model_checking",
         "TLA+ spec Cells: TLC exhaustive over add/remove/move histories and the key-arithmetic grid; TLC-simulated histories replayed on the real cells.Cells; TLC trace validation (CellsTrace) of every get_near_cells call of traced pipeline runs",
         "TLC checks Consistent/QueryComplete/QuerySound over all bounded operation histories (3 atoms on positions straddling cell borders, sizes 2 and 5) and the covering lemma on a coordinate grid; simulated histories and the grid are executed on the real class and each recorded add/remove/query event is validated against the spec's actions; in traced pipeline runs TLC tracks every atom's position/cell from wrapper events and judges each real query against brute force.",
         "Wrappers on Cells methods, Atom.__setattr__ and Residue.add/remove_atom are harness code; coordinates truncated to 0.001 A with a 0.003 A margin; pipeline traces cover the repository's PDB files only; cell-map maintenance defects of the hydrogen-optimisation classes are listed as known findings by call site.",
         "DESIGN.md 6/C14", ["Cells", "MC_Cells", "CellsTrace", "CellsLemma"]),
 "C18": ("model_checking",
         "TLA+ spec Dx2Cube (reader/writer as line-by-line actions): TLC exhaustive over all grid shapes in the bound; every shape converted by the real read_pqr/read_dx/write_cube (and the dx2cube entry point); TLC trace validation (Dx2CubeTrace) of the parsed cubes",
         "The space in the bound (all nx,ny,nz <= MaxN, DX row lengths 1-3, 0-2 atoms, trailer on/off) is enumerated completely by TLC; each case is realised as files, converted by the real code (many conversions per process), parsed by an independent cube reader and judged by TLC against the spec's cube and the C18 clauses.",
         "Generated DX files follow APBS's layout; values compared at the printed 5 significant digits; file rendering and the cube parser are harness code.",
         "DESIGN.md 6/C18", ["Dx2Cube", "Dx2CubeTrace"]),
 "C17": ("model_checking",
         "TLA+ spec Psize (line loop + sizing steps in exact integer arithmetic): TLC exhaustive over all files in the bound x parameter sets; every file sized by the real psize.Psize/io.dump_apbs in both layouts; TLC trace validation (PsizeTrace); pipeline runs with --apbs-input",
         "TLC checks GridUsable (boxes enclose every atom sphere and are centred, fine <= coarse, grid counts 32k+1 >= 33, memory split consistent) on every file <= MaxLen lines over atom and header/comment lines for two parameter sets; the real sizing of each file (fixed layout, whitespace layout, header lines removed) and the rendered APBS input are compared with the spec's result and judged by TLC, incl. HeaderLinesIgnored, LayoutIndependent, InputFileMatches; end-to-end runs check that the input names and is sized from the PQR just written.",
         "Coordinates chosen so that the float arithmetic is exact (dyadic) or away from rounding points; cfac >= 1 and fadd >= 0; rendering of PQR lines and parsing of the .in file are harness code; proc-grid/focusing numbers (logarithms) are not modelled.",
         "DESIGN.md 6/C17", ["Psize", "MC_Psize", "PsizeTrace"]),
 "C08": ("model_checking",
         "TLA+ spec PqrFormat (formatter, --whitespace re-spacing and token reader on strings): TLC over the product of field shapes; one real Atom per shape through get_pqr_string/print_pqr/read_pqr; TLC trace validation (PqrFormatTrace) of produced text and re-read fields, also for the atom lines of real pipeline runs",
         "TLC checks on the string-level model that a field wider than its column never corrupts a neighbour (Confined) and that Faithful fails exactly by cutting; every replayed shape's real text and re-read fields must equal the model's (zero drift) and the C08 clauses (fixed columns, plain tokenisation, pdb2pqr's reader) are evaluated by TLC on the observed text; the formatter's width limits are listed as known findings by field.",
         "Number->text conversion is outside the spec (values are exact decimals); |charge| < 10, radius < 10; thorough replays a covering subset (every value, pairs of width-relevant fields, random points) of the product TLC explores.",
         "DESIGN.md 6/C08", ["PqrFormat", "PqrFormatTrace"]),
 "C12": ("fault_enumeration",
         "TLA+ spec Pipeline (stage machine with faults): TLC exhaustive over all option sets x fault stages x initial output state; TLC-emitted fault table injected into real runs (entry/exit of every stage, three exception classes, output absent / old file) plus natural failure causes and a success corpus; TLC trace validation (PipelineTrace) of the recorded stage events",
         "The stage x fault x option-class space is enumerated by TLC and every row is realised on the real code: the stage callable is made to raise, the run must surface an exception and the output path (absent, or an old file checked by bytes and mtime) must be unchanged; the trace validator also checks on every run that only print_pqr changes the path and only after all enabled computing stages finished; generated unusable inputs/options must fail loudly and complete ALA-X-ALA peptides of every residue type must succeed under every force field.",
         "Faults are Python exceptions at stage boundaries (not I/O errors inside a write); stage wrappers and digest sampling are harness code; a failure after the PQR was written completely (pdb-output/apbs stages) may leave it in place; nucleic-acid success corpus is part of C02.",
         "DESIGN.md 6/C12", ["Pipeline", "MC_Pipeline", "PipelineTrace"]),
 "C09": ("model_checking",
         "TLA+ spec Pipeline2 (self-composition of the stage machine): TLC exhaustive NonInterference over all computing option sets x formatting subsets; TLC-emitted option pairs run on the real code with stage wrappers; TLC pair validation (Pipeline2Trace) of per-stage digests and PQR atom records; drop-water and neutral-terminus relations",
         "TLC proves on the stage model (table of what each stage writes and which options it reads) that formatting/naming options cannot influence coordinates, charges, radii or order; for every replayed pair of runs the digests of coordinates and charges/radii after each computing stage and the number columns, order and atom count of the two PQR files must be equal, names may differ only with --ffout, the chain column only with --keep-chain; --drop-water must equal deleting the waters from the input (also with colliding serial numbers); --neutraln/--neutralc must change only chain-terminal residues and shift the total charge by -1/+1 per terminus.",
         "Replayed pairs are a seeded subset of the lattice TLC explores (quick) on two generated inputs and cterm_hid.pdb; PQR parsing is harness code.",
         "DESIGN.md 6/C09", ["Pipeline", "Pipeline2", "MC_Pipeline2", "Pipeline2Trace"]),
 "C11": ("model_checking",
         "TLA+ spec History (process-lifetime state across runs): TLC exhaustive over all histories <= 3 of nineteen configurations; TLC-emitted histories executed in fresh interpreters under several hash seeds (incl. the console entry point); TLC trace validation (HistoryTrace): one outcome per configuration",
         "Every history TLC emits is run in its own interpreter through run_pdb2pqr; the digest of the PQR bytes (or the exception class) of each run is recorded and TLC requires the outcome to be a function of the configuration across positions, histories, processes and hash seeds; configurations include same --ff with different --usernames, two user force fields, an input needing multi-atom repair, failing runs and a PROPKA run.",
         "Hash seeds and (in quick) histories of length 3 are sampled; nine configurations; verdict on output bytes only.",
         "DESIGN.md 6/C11", ["History", "HistoryTrace"]),
 "C13": ("model_checking",
         "TLA+ spec SSBridge (pair scan with its skip shortcut + resolution): TLC exhaustive over all within-limit graphs on <= 5 cysteines; every graph realised geometrically and run through the pipeline in several file orders, chain-id assignments and option sets; TLC trace validation (SSBridgeTrace) of partner/CYX/HG per cysteine",
         "TLC checks on the scan model that every mutually exclusive pair ends bonded symmetrically and every isolated cysteine free, for all graphs in the bound and in scan order; each graph is realised with real coordinates (ALA-CYS-ALA chains placed rigidly, relation recomputed from the written file), run end to end, and the observed ss_bonded partner, CYX naming and HG presence are judged by TLC; axis-parallel pairs at 2.0..2.6 A across grid lines cover distances around the limit in any frame.",
         "Geometric realisation uses a 0.25 A margin except for the explicit border cases; quick covers N <= 4 (half of the 4-graphs) and two file orders; chain placement and projection are harness code.",
         "DESIGN.md 6/C13", ["SSBridge", "SSBridgeTrace"]),
 "C06": ("model_checking",
         "TLA+ spec Titration (the three decisions of apply_pka_values per residue with the guard table): TLC exhaustive over all residue cells with Supported extracted from the current force-field files; every cell replayed through the real pipeline with an injected pKa table; TLC trace validation (TitrationTrace); real-PROPKA pH sweeps judged for non-increasing charge",
         "The decision space (position x group x force field x pH side per key) is finite and enumerated completely: TLC checks WithinSupport on the guard table against Supported (re-extracted from the DAT/names files on every run by naming the state in the input), and each cell is executed on a generated tripeptide; applied patches, warnings, final force-field name and presence in the output are judged by TLC (ProtonatedIffBelow, UnsupportedKeepsDefault, UnsupportedWarns, NoResidueDropped); PROPKA sweeps over pH 0..14 check charge monotonicity, no residue dropped and terminus titration.",
         "pKa table injection replaces main.run_propka at run time; terminus keys are supplied in the form apply_pka_values expects; sweeps use three to five inputs; user-supplied force fields are outside the property's quantifier.",
         "DESIGN.md 6/C06", ["Titration", "TitrationTrace"]),
 "C15": ("model_checking",
         "TLA+ spec Rigid (placement contract in exact integer arithmetic over integer quaternions): TLC enumerates every rotation x template x translation with its exact image; every case executed on the real quatfit.find_coordinates; TLC trace validation (RigidTrace) of placements (2e-6 A) and of torsion changes (set_dihedral_angle, rotate_tetrahedral, qchichange) re-measured independently",
         "TLC generates every case of the rational rotation family (entries -2..2 quick, -3..3 thorough) with thin, obtuse and four-point reference sets and translations up to 1e5 A, checks that the contract's matrices are proper rotations, and judges N x the real result against the exact integer image, which also decides mirror images and equivariance; every dihedral of every residue type is driven through angle sequences with differences beyond +-180 degrees and judged on the re-measured torsion (0.05 deg), unchanged distances to the axis atoms and unmoved other atoms.",
         "Rotations are a dense rational subset of SO(3), not all of it; collinear references excluded; re-measurement is numpy code in the harness; Jacobi convergence on ill-conditioned inputs not decided.",
         "DESIGN.md 6/C15", ["Rigid", "MC_Rigid", "RigidTrace"]),
 "C16": ("model_checking",
         "TLA+ spec Peoe (antisymmetric pairwise transfer + per-cycle share of the formal charge): TLC exhaustive conservation over all bond graphs/shares/transfers in the bound; real assign_parameters traced cycle by cycle on stored and generated molecules; TLC trace validation (PeoeTrace) of component sums, radii, metamorphic pairs and of protein-ligand complexes run end to end",
         "TLC proves ComponentSumInvariant on the abstract transfer model (and finds the violation when unbonded atoms are skipped); the charges after every real PEOE cycle (recorded with a local trace function) and the final charges must carry, per connected component, exactly the share of the formal charge; radii must equal the RADII-table lookup; renamed and permuted copies must give the same charges per symmetry class; in generated complexes every ligand atom must be written once with the ligand's parameters and no other hetero atom may change relative to the run without --ligand.",
         "Stored molecules plus four variants each (quick: the small ones and 1HPX); six complex layouts on one peptide with the acetate ligand; conservation is judged against pdb2pqr's own formal_charge; MOL2 writer and PQR parsing are harness code.",
         "DESIGN.md 6/C16", ["Peoe", "PeoeTrace"]),
 "C10": ("model_checking",
         "TLA+ spec CifColumns (string-level assembly of fixed-column records from atom_site items + pdb.ATOM slicing, two missing-value conventions): TLC over the product of value shapes; every shape written as real mmCIF and PDB files and read by the real readers; TLC trace validation (CifColumnsTrace); whole structures run through the pipeline in both encodings",
         "TLC checks SameAtomAsPdb on the model of the current assembly code for every shape (record type, id width, 1-4 character names, alt id, 1-3 character comp ids, negative / four-digit residue numbers, insertion codes, coordinate widths up to 8, formal charge) under both conventions of the parsing dependency; each shape is realised as files, the record produced by cif.read_cif must equal the model's and the PDB reader's; eight generated structures (alt locs, insertion codes, negative numbers, wide coordinates, hydrogens, two models numbered 8/9 and 9/10) must give identical PQR atoms from both encodings.",
         "Only mmcif-pdbx 2.1.0 is installed; the verbatim-marker convention is realised by a shim after pdbx.load; label_* and auth_* names are equal in generated files; writers and projections are harness code.",
         "DESIGN.md 6/C10", ["CifColumns", "CifColumnsTrace"]),
 "C02": ("model_checking",
         "TLA+ spec Termini (both passes of set_termini incl. chain splitting at hidden ends, assign_termini with cyclic test and backward scan): TLC exhaustive over ~3.7k chain configurations against an independent segment definition; every configuration replayed on the real read_pdb/Biomolecule/set_termini; TLC trace validation (TerminiTrace) of terminus flags and of residue charges from pipeline runs against a formal-charge table",
         "TLC checks TerminiOncePerEnd for every configuration in the bound (amino runs with OXT anywhere, nucleotide runs, hetero tails, caps, two chains, cyclic flag, neutral options); the real code's flags on each concretised configuration must equal the model's (zero drift) and satisfy the clauses; pipeline runs of every residue type and named variant at each position, DNA/RNA strands, multi-chain inputs with numbering offsets, three peptides under one chain id, neutral termini and the cyclic peptide are judged on ChargeIsFormal, StrandCharge, WaterNeutral, TotalIntegral.",
         "Formal-charge table is chemistry written into the trace spec; only fully parameterised residues are judged; unit-level cyclic inputs fake N-C closeness; concretisation and residue matching are harness code.",
         "DESIGN.md 6/C02", ["Termini", "MC_Termini", "TerminiTrace"]),
 "C01": ("model_checking",
         "TLA+ spec ForceField (DAT rows, cumulative .names sections with residue/$group/atom aliasing, lookup): TLC computes the parameter map from the files of the current tree with the spec's actions; the real Forcefield.map must equal it; every atom of every corpus run is an assign record judged by TLC (ForceFieldTrace)",
         "For the six built-in force fields, the repository's user pair and 40-300 generated user DAT/names pairs, TLC replays LoadRow/Section on the files' own content (independent readers; regex match sets by Python's re) and requires the real map to be identical entry by entry (charge, radius, native names); then each atom of the generated corpus (every residue type and named variant at every position, neutral termini, DNA/RNA strands, waters, user force fields incl. two different pairs in one process) must use the state-qualified key the generator's ground truth prescribes, be written with exactly the row's charge and radius, and be omitted and reported when the map has no entry.",
         "Python's re and pdb2pqr's topology loader (canonical names) are trusted; comparison at the 4 decimals written; HIS tautomer keys and CYS in real structures are not asserted.",
         "DESIGN.md 6/C01", ["ForceField", "ForceFieldTrace"]),
 "C03": ("model_checking",
         "TLA+ specs Lifecycle (atom ledger: which stage may create / delete atoms of which origin; kept flips as swaps) and OptClasses (name-set effect of the optimisation classes): TLC exhaustive on OptClasses; every corpus run recorded at the level of add/remove/rename_atom and validated by TLC (LifecycleTrace) incl. end-of-run partition, written-is-matched, topology-exact and input-count clauses",
         "TLC checks NoTempAfterComplete/FinalSetIsTopology/InputHeavyConserved over all try_* sequences of the optimisation classes; each real run's primitive operations are replayed through the ledger spec, which rejects a creation or deletion that is illegal for its stage and origin, and at the end judges that every heavy input atom of a recognised residue is present (or its flipped copy, or reported, or the 5' phosphate), names are unique, no LP/FLIP placeholder remains, matched and unassigned lists partition the model, the PQR lines are exactly the matched atoms in order, fully parameterised residues carry exactly their patched topology's atoms, and as many heavy atoms entered the model as the input has records.",
         "Identity = Python object; report = log record before the deletion; topology oracle = the residue's patched reference object of the current tree (HIS per tautomer; one of the two acid hydrogens); corpus = generated peptides/environments/strands/complexes and repository structures; wrappers are harness code.",
         "DESIGN.md 6/C03", ["Lifecycle", "LifecycleTrace", "OptClasses", "HbondSched", "MC_HbondSched", "HbondSchedTrace", "ApplyPatch"]),
 "C04": ("model_checking",
         "TLA+ spec Moves (rank by breadth-first search from CA with the special cases, moved set beyond the pivot): TLC computes rank and moved set for every residue type x position x dihedral of the current topology and judges the real get_moveable_names answer (MovesTrace); every real torsion change and the final geometry of traced clash/hydrogen-bond runs are judged; the stage clause is checked on the same runs against Pipeline.tla (PipelineTrace)",
         "All ~200 (residue type / named variant x chain position x dihedral) cases of the current topology files are put to the real code after set_termini/add_hydrogens/set_reference_distance; TLC's own computation must equal the real rank and moved set and RigidSafe must hold on the real answer (no backbone or terminal-cap atom moves, no bond cut off the axis, over the bond graph of the patched topology object); in ~380 traced runs (random and hard clash environments, hydrogen-bond environments, omitted atoms, repository structures, forbidding options) every set_dihedral_angle/rotate_tetrahedral is judged on distances to the axis, rigidity of the moved set and fixed axis atoms, the end of each run on bond lengths/angles among input heavy atoms, backbone displacement and NoMoveWhenForbidden, and the stage events on HeavyOnlyInMoveStages.",
         "Deviations are measured by harness float code, thresholds judged by TLC; bonded pairs = pairs closer than 1.95 A in the input; debump histories that return to a changed dihedral are reached by random search (count in evidence).",
         "DESIGN.md 6/C04", ["Moves", "MovesTrace", "Pipeline", "PipelineTrace", "Debump", "DebumpTrace"]),
 "C05": ("model_checking",
         "TLA+ spec Placement (the add_hydrogens loop: tetrahedral paths by the parent's bond count, else three-point superposition on the first three available atoms of get_nearest_bonds; the repair_heavy work queue with deferral): every residue of every traced run is a case whose observed sequence of (atom, construction path, reference atoms, atoms actually handed to the superposition) TLC must reproduce, with the clauses ParentAmongRefs / ReferencePairing / PeptideNeighbourBonded / EveryHydrogenPlaced judged on the observation; every added atom of every final model is judged by PlacementTrace on bond length, bond angles, attachment and coincidence against its patched template",
         "~150 (quick) / ~700 (thorough) traced runs: every residue type at every chain position (heavy atoms only, side-chain atoms removed singly and in groups), hydrogen-bond environments that drive each optimisation class, a backbone gap, nucleic strands, partly protonated input, titration runs and neutral termini, 1AJJ with each side chain cut after CB (rebuilt atoms clash, both debump passes act), repository structures; random side-chain conformations, equivalent-name exchanges, resolved acids; ~900/5000 residue cases and ~8000/55000 added atoms.",
         "Deviations are measured by harness float code (numpy), thresholds judged by TLC; the allowance (0.02 A + 2 x misfit; 6 deg + 2 x atan(2 x misfit / bond)) uses the residual of an independent SVD superposition of the template star on the input and of the recorded construction arguments; peptide neighbours are taken by distance (1.7 A), not from the model's pointers; rotated ...FLIP copies of input atoms are moves (C04), not additions.",
         "DESIGN.md 6/C05", ["Placement", "PlacementTrace", "Templates"]),
}

NOT_YET = "check not built yet (build round in progress); planned per DESIGN.md section 6"


def main():
    props = [json.loads(l) for l in open(os.path.join(HERE, "properties.jsonl"))]
    checks, na, engines = [], [], []
    for p in props:
        pid = p["id"]
        if pid in CHECKS:
            level, tech, text, note, ref, mods = CHECKS[pid]
            checks.append({
                "property_id": pid,
                "quick_cmd": f"./check {pid} --tier quick",
                "thorough_cmd": f"./check {pid} --tier thorough",
                "evidence_file": f"/verif/evidence/{pid}.json",
                "replay_cmd_template": f"./check {pid} --replay {{path}}",
                "engine": "tlc",
                "level_claimed": {"category": level, "text": text, "design_ref": ref},
                "level_note": note,
                "technique": tech,
            })
        else:
            na.append({"property_id": pid, "reason": NA.get(pid, NOT_YET)})
    served = {}
    for pid, v in CHECKS.items():
        for m in v[5]:
            served.setdefault(m, []).append(pid)
    engines = [{"name": "tlc", "path": "/usr/local/bin/tlc", "serves_properties": sorted(CHECKS),
                "kind_free_text": "TLC 1.8 model checker on the TLA+ modules in /verif/spec (" +
                                  ", ".join(sorted(served)) + "); conformance harness /verif/vlib replays TLC-generated cases into pdb2pqr and validates recorded traces with TLC"},
               {"name": "apalache", "path": "/usr/local/bin/apalache-mc", "serves_properties": ["C14"],
                "kind_free_text": "Apalache 0.58 discharges the covering lemma of the cell key arithmetic for all integers (spec/CellsLemma.tla, --length=0); "
                                  "an auxiliary step of the C14 check next to the TLC legs"}]
    m = {
        "version": 1,
        "setup_cmd": "./tools/setup.sh",
        "hooks": {
            "guard": "PDB2PQR_VERIF_TRACE",
            "enable": "no source hooks in /repo: the harness wraps pdb2pqr callables at run time inside its own processes (it sets PDB2PQR_VERIF_TRACE=1 there); with the variable unset nothing is wrapped",
            "baseline_off_cmd": "cd /repo && /venv/bin/python -m pytest -ra -q -p no:cacheprovider --timeout=900 --continue-on-collection-errors",
            "source_commits": [],
            "add_only": True,
        },
        "engines": engines,
        "checks": checks,
        "notes": "fix: commits in /repo (genuine defects found by the checks) are listed in /verif/known_findings.json as kind=fixed; see DESIGN.md section 11.",
        "not_applicable": na,
    }
    path = os.path.join(HERE, "MANIFEST.json")
    json.dump(m, open(path, "w"), indent=1)
    r = subprocess.run(["python3-vt", "-c",
                        "import json,jsonschema,sys;jsonschema.validate(json.load(open(sys.argv[1])),json.load(open('/root/.vp/MANIFEST.schema.json')));print('MANIFEST ok')", path])
    return r.returncode


NA = {}

if __name__ == "__main__":
    sys.exit(main())
