#!/bin/sh
# usage: tools/try_mutant_wt.sh <patch.diff> <check id>...   like try_mutant.sh, but in a scratch worktree of /repo's HEAD under /tmp
# (removed afterwards) through VERIF_REPO, so that /repo itself is never touched (other runs may be using it).
P="$(readlink -f "$1")"; shift
cd /verif
wt=/tmp/tm-$$
git -C /repo worktree add -q --detach $wt HEAD || exit 2
git -C $wt apply "$P" || { echo "patch does not apply"; git -C /repo worktree remove --force $wt; exit 2; }
for id in "$@"; do
  VERIF_REPO=$wt VERIF_EVIDENCE_DIR=/verif/.work/mut-evidence ./check "$id" --tier "${TIER:-quick}" > /verif/.work/mut-$id.log 2>&1
  rc=$?
  echo "== $id rc=$rc"; grep -E "VIOLATION|key=|MACHINERY|^\[" /verif/.work/mut-$id.log | head -${LINES_SHOWN:-8}
done
git -C /repo worktree remove --force $wt
