#!/bin/sh
# usage: tools/benign.sh <outfile> <patch.diff>...   behaviour-preserving changes: every check must stay silent.
# Scratch worktree per patch (removed afterwards), all registered quick checks through VERIF_REPO, 4 at a time.
OUT="$1"; shift
cd "$(dirname "$0")/.."
V=$(pwd)
IDS="${IDS:-$(python3 -c "import json;print(' '.join(c['property_id'] for c in json.load(open('MANIFEST.json'))['checks']))")}"
for P in "$@"; do
  P=$(readlink -f "$P"); name=$(echo "$P" | sed 's#.*/out/##; s#/patch.*##; s#/#-#g')
  wt=/tmp/bn-$name
  git -C /repo worktree remove --force $wt 2>/dev/null
  git -C /repo worktree add -q --detach $wt HEAD || { echo "$name worktree-failed" >> "$OUT"; continue; }
  if ! git -C $wt apply "$P"; then echo "$name patch-does-not-apply" >> "$OUT"; git -C /repo worktree remove --force $wt; continue; fi
  for id in $IDS; do echo $id; done | VERIF_REPO=$wt VERIF_EVIDENCE_DIR=$V/.work/bn-ev-$name xargs -P 4 -I{} sh -c \
    'out=$(timeout 2400 ./check {} --tier quick 2>&1); rc=$?; echo "'$name' {} rc=$rc $(echo "$out" | grep -E "key=|MACHINERY" | head -2 | cut -c1-200 | tr "\n" "|")"' >> "$OUT"
  git -C /repo worktree remove --force $wt
  rm -rf $V/.work/bn-ev-$name
done
echo DONE >> "$OUT"
