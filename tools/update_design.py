#!/usr/bin/env python3
"""usage: tools/update_design.py [--matrix log...] [--thorough log...]   refreshes the generated tables of DESIGN.md"""
import re, subprocess, sys
args = sys.argv[1:]
mode, logs = None, {"--matrix": [], "--thorough": []}
for a in args:
    if a in logs:
        mode = a
    else:
        logs[mode].append(a)
d = open("/verif/DESIGN.md").read()
if logs["--matrix"]:
    t = subprocess.run(["python3", "/verif/tools/matrix_table.py"] + logs["--matrix"], capture_output=True, text=True).stdout
    d = re.sub(r"<!-- MATRIX:BEGIN -->.*?<!-- MATRIX:END -->", lambda m: "<!-- MATRIX:BEGIN -->\n" + t + "<!-- MATRIX:END -->", d, flags=re.S)
if logs["--thorough"]:
    rows = {}
    for f in logs["--thorough"]:
        for ln in open(f):
            m = re.match(r"seed=(\d+) (C\d\d) rc=(\d+) :: \[C\d\d\] tier=(\w+) .*?states=(\d+) traces=(\d+) evaluations=(\d+) nontrivial=(\d+) violations=(\d+) known=(\d+) wall=([\d.]+)s", ln)
            if m:
                rows[(m.group(2), m.group(4), m.group(1))] = m.groups()
    t = "| id | tier | seed | exit | TLC states | traces validated | evaluations | non-trivial | violations | known findings seen | wall |\n|---|---|---|---|---|---|---|---|---|---|---|\n"
    for k in sorted(rows):
        g = rows[k]
        t += f"| {g[1]} | {g[3]} | {g[0]} | {g[2]} | {g[4]} | {g[5]} | {g[6]} | {g[7]} | {g[8]} | {g[9]} | {g[10]} s |\n"
    d = re.sub(r"<!-- THOROUGH:BEGIN -->.*?<!-- THOROUGH:END -->", lambda m: "<!-- THOROUGH:BEGIN -->\n" + t + "<!-- THOROUGH:END -->", d, flags=re.S)
open("/verif/DESIGN.md", "w").write(d)
