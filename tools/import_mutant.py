#!/usr/bin/env python3
"""import a confirmed sub-agent change into /verif/seeded/<id>-<V>/ : patch.diff, demo.py, notes.md, meta.json"""
import json, os, re, shutil, sys
ID, V = sys.argv[1], sys.argv[2]
ROOT = os.environ.get("ROOT", "/tmp/wt2")
src = f"{ROOT}/out/{ID}/{V}"
dst = f"/verif/seeded/{ID}-{V}"
os.makedirs(dst, exist_ok=True)
for f in ("patch.diff", "demo.py", "notes.md"):
    shutil.copy(os.path.join(src, f), os.path.join(dst, f))
conf = ""
for log in sorted(os.listdir(f"{ROOT}/out")):
    if log.startswith("confirm") and log.endswith(".log"):
        for ln in open(os.path.join(f"{ROOT}/out", log)):
            if ln.startswith(f"{ID}/{V} "):
                conf = ln.strip()
notes = open(os.path.join(src, "notes.md")).read()
meta = {"property": ID, "variant": V,
        "files_changed": sorted(set(re.findall(r"^\+\+\+ b/(\S+)", open(os.path.join(src, "patch.diff")).read(), re.M))),
        "needs_to_manifest": " ".join(sys.argv[3:]) or "see notes.md",
        "confirmed_by_me": {"command": f"tools/confirm_mutant.sh {ID} {V} (scratch worktree {ROOT}/{ID}: demo on pristine, "
                                       "git apply, run_stable_tests.sh = the 151 stable tests, demo with change)",
                            "result": conf},
        "detected_by": []}
mp = os.path.join(dst, "meta.json")
if os.path.exists(mp):
    old = json.load(open(mp))
    meta["detected_by"] = old.get("detected_by", [])
    if not sys.argv[3:]:
        meta["needs_to_manifest"] = old.get("needs_to_manifest", meta["needs_to_manifest"])
json.dump(meta, open(mp, "w"), indent=1)
print(dst, conf)
