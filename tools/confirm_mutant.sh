#!/bin/sh
# usage: confirm_mutant.sh <Cxx> <A|B>   -- confirms a sub-agent's change in its scratch worktree /tmp/wt/<Cxx>:
#  demo passes on pristine, patch applies, stable tests keep their counts, demo fails with the change.
ROOT=${ROOT:-/tmp/wt2}; ID=$1; V=$2; WT=$ROOT/$ID; OUT=$ROOT/out/$ID/$V
cd $WT || exit 2
git checkout -q -- . && git clean -fdq
export DEMO_REPO=$WT
timeout 900 /venv/bin/python $OUT/demo.py > $OUT/confirm_pristine.log 2>&1; d0=$?
git apply $OUT/patch.diff || { echo "$ID/$V patch-does-not-apply"; exit 1; }
tests=$($ROOT/run_stable_tests.sh $WT | tail -1)
timeout 900 /venv/bin/python $OUT/demo.py > $OUT/confirm_mutant.log 2>&1; d1=$?
git checkout -q -- . && git clean -fdq
echo "$ID/$V demo_pristine=$d0 demo_mutant=$d1 tests: $tests"
