#!/bin/sh
# Offline setup: verifies that the tools the checks need are present.  Nothing is downloaded or built.
set -e
cd "$(dirname "$0")/.."
command -v java >/dev/null
test -f /opt/veriftools/tla/tla2tools.jar
/venv/bin/python -c "import numpy, sys; sys.path.insert(0, '/repo'); import pdb2pqr"
mkdir -p evidence replays .work
echo "setup ok"
