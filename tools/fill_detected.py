#!/usr/bin/env python3
"""usage: tools/fill_detected.py <own-matrix log> [<full-matrix log>]   writes meta.json 'matrix' fields of the seeded changes
(the check of the change's own property: exit status and first violated clause; other checks that reported it)"""
import json, os, re, sys
own, cross = {}, {}
for ln in open(sys.argv[1]):
    m = re.match(r"(C\d\d-[A-Z]) (C\d\d) rc=(\d+)\s*(.*)", ln)
    if m:
        own[m.group(1)] = (int(m.group(3)), m.group(4)[:180])
if len(sys.argv) > 2:
    for ln in open(sys.argv[2]):
        m = re.match(r"(C\d\d-[A-Z]) (C\d\d) rc=(\d+)", ln)
        if m and m.group(2) != m.group(1)[:3] and m.group(3) == "1" and m.group(2) != "C01":
            cross.setdefault(m.group(1), []).append(m.group(2))
for d in sorted(os.listdir("/verif/seeded")):
    p = f"/verif/seeded/{d}/meta.json"
    m = json.load(open(p))
    if d in own:
        rc, key = own[d]
        m["matrix"] = {"own_check": d[:3], "exit": rc, "first_violation": key.strip(" |")}
        if not m.get("detected_by"):
            m["detected_by"] = [f"{d[:3]} quick: {key.strip(' |')[:150]}"] if rc == 1 else []
    if d in cross:
        m.setdefault("matrix", {})["also_reported_by_in_round1_matrix"] = sorted(set(cross[d]))
    json.dump(m, open(p, "w"), indent=1)
print(len(own), "own results;", sum(1 for v in own.values() if v[0] == 1), "detected")
