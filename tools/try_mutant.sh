#!/bin/sh
# usage: tools/try_mutant.sh <patch.diff> <check id>...   applies the patch to /repo, runs the quick checks, reverts
P="$(readlink -f "$1")"; shift
cd /verif
git -C /repo diff --quiet || { echo "/repo has uncommitted changes"; exit 2; }
git -C /repo apply "$P" || { echo "patch does not apply"; exit 2; }
for id in "$@"; do
  VERIF_EVIDENCE_DIR=/verif/.work/mut-evidence; mkdir -p $VERIF_EVIDENCE_DIR; export VERIF_EVIDENCE_DIR
  ./check "$id" --tier "${TIER:-quick}" > /verif/.work/mut-$id.log 2>&1
  rc=$?
  echo "== $id rc=$rc"; grep -E "VIOLATION|key=|MACHINERY|KNOWN|^\[" /verif/.work/mut-$id.log | head -${LINES_SHOWN:-8}
done
git -C /repo checkout -- .
git -C /repo status --short | head -3
